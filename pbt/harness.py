"""Build a pyhms tree from a scenario with pass-through observers, run it, feed checkers.

Nothing here touches /repo: every observer is an object a user may legally hand to pyhms
(objective callable, stop conditions, sprout mechanism / generator / filters, ea_class,
custom deme class)."""
from __future__ import annotations

import sys
import traceback
from typing import Any

import numpy as np

import pyhms
from pyhms.config import (
    BaseLevelConfig,
    CMALevelConfig,
    DELevelConfig,
    EALevelConfig,
    LHSLevelConfig,
    LocalOptimizationConfig,
    SHADELevelConfig,
    SobolLevelConfig,
    TreeConfig,
)
from pyhms.core.individual import Individual
from pyhms.core.problem import (
    EvalCountingProblem,
    EvalCutoffProblem,
    FunctionProblem,
    PrecisionCutoffProblem,
    StatsGatheringProblem,
)
from pyhms.demes.abstract_deme import AbstractDeme, DemeInitArgs
from pyhms.demes.single_pop_eas import sea as sea_mod
from pyhms.sprout import sprout_filters as sf
from pyhms.sprout import sprout_generators as sg
from pyhms.sprout.sprout_candidates import DemeCandidates, DemeFeatures
from pyhms.sprout.sprout_mechanisms import SproutMechanism, get_NBC_sprout, get_simple_sprout
from pyhms.stop_conditions import (
    AllChildrenStopped,
    AllStopped,
    DontRun,
    DontStop,
    FitnessEvalLimitReached,
    FitnessSteadiness,
    GlobalStopCondition,
    LocalStopCondition,
    MetaepochLimit,
    NoActiveNonrootDemes,
    RootStopped,
    SingularProblemEvalLimitReached,
    SingularProblemPrecisionReached,
    WeightingStrategy,
)
from pyhms.tree import DemeTree

from .common import Violation
from .scenario import make_objective

PYHMS_DIR = pyhms.__path__[0]

# ------------------------------------------------------------------------------------------------
# who is calling?


def find_asker(depth: int = 2):
    """first frame (walking outwards) whose `self` is a deme or the tree."""
    f = sys._getframe(depth)
    while f is not None:
        s = f.f_locals.get("self")
        if s is not None:
            if isinstance(s, AbstractDeme):
                return ("deme", getattr(s, "_id", None), getattr(s, "_level", None), f.f_code.co_name)
            if isinstance(s, DemeTree):
                return ("tree", None, None, f.f_code.co_name)
        f = f.f_back
    return ("harness", None, None, None)


def classify_consultation(depth: int = 2):
    """who consults the global stop condition: ('deme', id, fn) when the call comes out of a deme's code; otherwise the
    tree (or the harness driving it): 'post' when it happens inside DemeTree.run_step (after the demes ran), 'head' when
    it is made between steps (the loop of run(), or the harness). Only the public method name run_step is relied on:
    helper frames in between do not matter."""
    f = sys._getframe(depth)
    in_step = False
    fn0 = None
    while f is not None:
        s = f.f_locals.get("self")
        if s is not None:
            if isinstance(s, AbstractDeme):
                return ("deme", getattr(s, "_id", None), f.f_code.co_name)
            if isinstance(s, DemeTree):
                fn0 = fn0 or f.f_code.co_name
                if f.f_code.co_name == "run_step":
                    in_step = True
        f = f.f_back
    return ("post" if in_step else "head", None, fn0)


# ------------------------------------------------------------------------------------------------
# trace


class Call:
    __slots__ = ("seq", "tag", "deme", "level", "fn", "x", "value")

    def __init__(self, seq, tag, deme, level, fn, x, value):
        self.seq, self.tag, self.deme, self.level, self.fn, self.x, self.value = seq, tag, deme, level, fn, x, value


class GscEntry:
    __slots__ = ("idx", "verdict", "real", "capped", "asker", "asker_id", "asker_fn", "metaepoch", "n_calls", "census", "tree_nevals")

    def __init__(self, **kw):
        for k, v in kw.items():
            setattr(self, k, v)


class Trace:
    def __init__(self) -> None:
        self.calls: list[Call] = []
        self.timeline: list[GscEntry] = []
        self.lsc_log: list[dict] = []
        self.rounds: list[dict] = []
        self.filter_log: list[dict] = []
        self.engine_log: list[dict] = []
        self.first_true: int | None = None
        self.listeners: list = []  # checkers (not pickled with a snapshot: see __getstate__)
        self.run = None

    def __getstate__(self):
        d = dict(self.__dict__)
        d["listeners"] = []
        d["run"] = None
        return d

    def __deepcopy__(self, memo):
        # pyhms deep-copies candidate individuals (and with them their problem -> objective) in
        # SproutMechanism.get_seeds; the log is an external sink, not part of the objective's value
        return self

    def calls_of_level(self, level: int) -> list[Call]:
        return [c for c in self.calls if c.level == level]


def census(tree) -> dict:
    out = {}
    for lvl, demes in enumerate(tree.levels):
        for d in demes:
            out[d.id] = (
                lvl,
                bool(d.is_active),
                bool(d._hibernating),
                len(d._history),
                int(d.n_evaluations),
                sum(len(m) for m in d._history),
            )
    return out


CEN_LEVEL, CEN_ACTIVE, CEN_HIB, CEN_NHIST, CEN_NEVALS, CEN_NGENS = range(6)

# ------------------------------------------------------------------------------------------------
# observers


class Recorder:
    """the user's objective: logs every invocation (copy of x), then evaluates a pure objective"""

    def __init__(self, objective, trace: Trace, tag):
        self.objective = objective
        self.trace = trace
        self.tag = tag

    def __call__(self, x, *a, **k):
        xc = np.array(x, dtype=float, copy=True)
        v = self.objective(xc)
        kind, did, lvl, fn = find_asker(2)
        tr = self.trace
        tr.calls.append(Call(len(tr.calls), self.tag, did, lvl, fn, xc, v))
        return v


class CapOr(GlobalStopCondition):
    """user-defined disjunction: inner condition OR a metaepoch cap. Pure pass-through + logging."""

    def __init__(self, inner, cap: int, trace: Trace, reads_best: bool = False):
        self.inner = inner
        self.cap = cap
        self.trace = trace
        self.reads_best = reads_best  # a user condition of the kind "stop when the target fitness is reached"

    def __call__(self, tree) -> bool:
        run = self.trace.run
        if run is not None and run.tree is None:
            # the tree was built by pyhms.hms.hms(): the first loop-head consultation is the first sight of it
            run.tree = tree
            for ch in run.checkers:
                ch.on_start(run)
        if self.reads_best:
            try:
                _ = tree.best_individual.fitness  # looked at, never used: reading must not change anything
            except Exception:  # noqa: BLE001
                pass
        real = bool(self.inner(tree))
        # (the cap also ends runs whose tree outgrows 40 demes: mechanisms without a LevelLimit can grow geometrically)
        capped = tree.metaepoch_count >= self.cap or sum(len(lv) for lv in tree.levels) > 40
        verdict = real or capped
        asker, did, fn = classify_consultation(2)
        tr = self.trace
        e = GscEntry(
            idx=len(tr.timeline),
            verdict=verdict,
            real=real,
            capped=capped,
            asker=asker,
            asker_id=did,
            asker_fn=fn,
            metaepoch=tree.metaepoch_count,
            n_calls=len(tr.calls),
            census=census(tree),
            tree_nevals=int(tree.n_evaluations),
        )
        tr.timeline.append(e)
        if verdict and tr.first_true is None:
            tr.first_true = e.idx
        for ch in tr.listeners:
            ch.on_gsc(tr.run, e)
        if asker == "head" and tr.run is not None:
            tr.run._boundary(tree)
        return verdict

    def __str__(self):
        return f"CapOr({self.inner}, cap={self.cap})"


class ObservedLSC(LocalStopCondition):
    def __init__(self, inner, trace: Trace, level: int):
        self.inner = inner
        self.trace = trace
        self.level = level

    def __call__(self, deme) -> bool:
        v = bool(self.inner(deme))
        e = {
            "deme": deme.id,
            "level": self.level,
            "deme_metaepoch": deme.metaepoch_count,
            "verdict": v,
            "n_calls": len(self.trace.calls),
            "gsc_idx": len(self.trace.timeline),
        }
        self.trace.lsc_log.append(e)
        return v


class ScriptedLSC(LocalStopCondition):
    """user-defined: stops at pre-drawn positions of its own call sequence"""

    def __init__(self, tape):
        self.tape = list(tape)
        self.i = 0

    def __call__(self, deme) -> bool:
        v = self.tape[self.i] if self.i < len(self.tape) else False
        self.i += 1
        return bool(v)


def _brute_best(deme):
    """best of a deme's whole history by brute force - observers must not call the accessors under test
    (a memoised accessor that is queried at every round never shows its staleness)"""
    b = None
    for m in deme._history:
        for g in m:
            for ind in g:
                if b is None or ind.problem.worse_than(b.fitness, ind.fitness):
                    b = ind
    return None if b is None else (np.array(b.genome, dtype=float, copy=True), float(b.fitness))


def pop_snapshot(deme) -> list:
    return [(np.array(ind.genome, dtype=float, copy=True), float(ind.fitness), id(ind)) for ind in deme.current_population]


class ObservedMechanism:
    """duck-typed sprout mechanism: snapshots the tree, calls the real mechanism, logs the result"""

    def __init__(self, inner, trace: Trace, sc: dict):
        self.inner = inner
        self.trace = trace
        self.level_limit = None

    def get_seeds(self, tree):
        tr = self.trace
        before = {
            "census": census(tree),
            "pops": {d.id: pop_snapshot(d) for _, d in tree.all_demes},
            "n_children": {d.id: len(d.children) for _, d in tree.all_demes},
            "best": {d.id: _brute_best(d) for _, d in tree.all_demes},
            "finished_now": {d.id for d in tree.levels[-2] if len(tree.levels) >= 2 and (not d.is_active) and d.started_at + len(d._history) == tree.metaepoch_count} if len(tree.levels) >= 2 else set(),
        }
        result = self.inner.get_seeds(tree)
        rnd = {
            "idx": len(tr.rounds),
            "metaepoch": tree.metaepoch_count,
            "gsc_idx": len(tr.timeline),
            "n_calls": len(tr.calls),
            "before": before,
            "seeds": {
                d.id: [(np.array(i.genome, dtype=float, copy=True), float(i.fitness), id(i)) for i in c.individuals]
                for d, c in result.items()
            },
            "seed_levels": {d.id: d.level for d in result},
            "features": {d.id: c.features.nbc_mean_distance for d, c in result.items()},
            "tree": tree,
        }
        tr.rounds.append(rnd)
        for ch in tr.listeners:
            ch.on_round(tr.run, rnd)
        return result

    def __getattr__(self, name):
        if name in ("inner", "trace", "level_limit"):
            raise AttributeError(name)
        return getattr(self.inner, name)


def _copy_cands(cands) -> dict:
    return {d.id: list(c.individuals) for d, c in cands.items()}


class ObservedDemeFilter(sf.DemeLevelCandidatesFilter):
    def __init__(self, inner, trace: Trace, pos: int):
        self.inner, self.trace, self.pos = inner, trace, pos

    def __call__(self, candidates, tree):
        before = _copy_cands(candidates)
        feats = {d.id: c.features.nbc_mean_distance for d, c in candidates.items()}
        demes = {d.id: d for d in candidates}
        out = self.inner(candidates, tree)
        self.trace.filter_log.append(
            {"chain": "deme", "pos": self.pos, "filter": self.inner, "before": before, "after": _copy_cands(out), "features": feats, "demes": demes, "tree": tree, "round": len(self.trace.rounds)}
        )
        for ch in self.trace.listeners:
            ch.on_filter(self.trace.run, self.trace.filter_log[-1])
        return out


class ObservedTreeFilter(sf.TreeLevelCandidatesFilter):
    def __init__(self, inner, trace: Trace, pos: int):
        self.inner, self.trace, self.pos = inner, trace, pos

    def __call__(self, candidates, tree):
        before = _copy_cands(candidates)
        feats = {d.id: c.features.nbc_mean_distance for d, c in candidates.items()}
        demes = {d.id: d for d in candidates}
        active_before = [sum(1 for d in lvl if d.is_active) for lvl in tree.levels]
        out = self.inner(candidates, tree)
        self.trace.filter_log.append(
            {"chain": "tree", "pos": self.pos, "filter": self.inner, "before": before, "after": _copy_cands(out), "features": feats, "demes": demes, "tree": tree, "active": active_before, "round": len(self.trace.rounds)}
        )
        for ch in self.trace.listeners:
            ch.on_filter(self.trace.run, self.trace.filter_log[-1])
        return out


class ObservedGenerator(sg.SproutCandidatesGenerator):
    def __init__(self, inner, trace: Trace):
        self.inner, self.trace = inner, trace

    def __call__(self, tree):
        out = self.inner(tree)
        e = {"chain": "generator", "generator": self.inner, "after": _copy_cands(out), "features": {d.id: c.features.nbc_mean_distance for d, c in out.items()}, "demes": {d.id: d for d in out}, "tree": tree, "round": len(self.trace.rounds)}
        self.trace.filter_log.append(e)
        for ch in self.trace.listeners:
            ch.on_filter(self.trace.run, e)
        return out


class ScriptedGenerator(sg.SproutCandidatesGenerator):
    """user generator (docs/sprout.rst): proposes pre-drawn members of each active non-leaf deme's current population"""

    def __init__(self, tape, default_k: int, nbc_mean_distance: float):
        self.tape = [list(t) for t in tape]
        self.default_k = default_k
        self.nbc_mean_distance = nbc_mean_distance
        self.i = 0

    def __call__(self, tree):
        out = {}
        for level in tree.levels[:-1]:
            for deme in level:
                if not deme.is_active:
                    continue
                pop = deme.current_population
                if self.i < len(self.tape):
                    idxs = self.tape[self.i]
                else:
                    idxs = list(range(self.default_k))
                self.i += 1
                chosen, seen = [], set()
                for j in idxs:
                    j = j % len(pop)
                    if j not in seen:
                        seen.add(j)
                        chosen.append(pop[j])
                out[deme] = DemeCandidates(individuals=chosen, features=DemeFeatures(nbc_mean_distance=self.nbc_mean_distance))
        return out


class Decisions:
    """per-step decision queues filled by the TreeMachine (pbt/machine.py) before every run_step()"""

    def __init__(self):
        self.stops: list = []
        self.proposals: list = []


class QueueLSC(LocalStopCondition):
    """user-defined LSC: the verdicts of this step are pre-set by whoever drives the tree"""

    def __init__(self, decisions: Decisions):
        self.decisions = decisions

    def __call__(self, deme) -> bool:
        q = self.decisions.stops
        return bool(q.pop(0)) if q else False


class QueueGenerator(sg.SproutCandidatesGenerator):
    """user generator: proposes pre-set members of each active non-leaf deme's current population"""

    def __init__(self, decisions: Decisions, nbc_mean_distance: float):
        self.decisions = decisions
        self.nbc_mean_distance = nbc_mean_distance

    def __call__(self, tree):
        out = {}
        for level in tree.levels[:-1]:
            for deme in level:
                if not deme.is_active:
                    continue
                q = self.decisions.proposals
                idxs = q.pop(0) if q else [0]  # nothing queued for this deme: propose its first individual
                pop = deme.current_population
                chosen, seen = [], set()
                for j in idxs:
                    j = j % len(pop)
                    if j not in seen:
                        seen.add(j)
                        chosen.append(pop[j])
                out[deme] = DemeCandidates(individuals=chosen, features=DemeFeatures(nbc_mean_distance=self.nbc_mean_distance))
        return out


class ProxySEA:
    """ea_class pass-through: logs parents handed in and offspring returned by the real engine"""

    def __init__(self, inner, trace):
        self.inner = inner
        self.trace = trace

    @classmethod
    def create(cls, **kwargs):
        inner_cls = kwargs["inner_ea_class"]
        trace = kwargs["engine_trace"]
        return cls(inner_cls.create(**kwargs), trace)

    def run(self, parents, **kwargs):
        kind, did, lvl, fn = find_asker(2)
        n0 = len(self.trace.calls)
        snap_in = [(np.array(p.genome, copy=True), float(p.fitness), id(p)) for p in parents]
        out = self.inner.run(parents, **kwargs)
        self.trace.engine_log.append(
            {"deme": did, "parents": snap_in, "offspring": [(np.array(o.genome, copy=True), float(o.fitness), id(o)) for o in out], "calls": (n0, len(self.trace.calls)), "kwargs": {k: v for k, v in kwargs.items()}}
        )
        return out


# custom deme, following docs/custom_demes.rst -----------------------------------------------------


class RandomSearchConfig(BaseLevelConfig):
    def __init__(self, problem, lsc, pop_size: int) -> None:
        super().__init__(problem, lsc)
        self.pop_size = pop_size


class RandomSearchDeme(AbstractDeme):
    def __init__(self, deme_init_args: DemeInitArgs) -> None:
        super().__init__(deme_init_args)
        config: RandomSearchConfig = deme_init_args.config
        self._pop_size = config.pop_size
        self.lower_bounds = config.bounds[:, 0]
        self.upper_bounds = config.bounds[:, 1]
        self._history.append([self._sample()])

    def _sample(self):
        genomes = np.random.uniform(self.lower_bounds, self.upper_bounds, size=(self._pop_size, len(self.lower_bounds)))
        population = [Individual(genome, problem=self._problem) for genome in genomes]
        Individual.evaluate_population(population)
        return population

    def run_metaepoch(self, tree) -> None:
        self._history.append([self._sample()])
        if tree._gsc(tree) or self._lsc(self):
            self._active = False
            self.log("Random Search Deme finished")


# ------------------------------------------------------------------------------------------------
# build

SEA_CLASSES = {
    "SEA": sea_mod.SEA,
    "SEAWithCrossover": sea_mod.SEAWithCrossover,
    "GAStyleSEA": sea_mod.GAStyleSEA,
    "SEAWithAdaptiveMutation": sea_mod.SEAWithAdaptiveMutation,
    "MWEA": sea_mod.MWEA,
}


def base_minimum(sc: dict) -> float:
    o = sc["objective"]
    if o["family"] == "constant":
        return float(o.get("const", 1.0))
    if o["family"] == "linear":
        return float(sum(min(0.0, w) for w in o["weights"]))
    if o["family"] == "offset":
        return 1000.0
    if o["family"] == "infpit":
        return float("-inf")
    return 0.0


def build_problem(sc: dict, trace: Trace, tag, wrappers: list, sign=None):
    box = np.array(sc["box"], dtype=float)
    obj = make_objective(sc, sign)
    rec = Recorder(obj, trace, tag)
    style = sc.get("objective_style", "object")
    if style == "lambda":
        fn = lambda x: rec(x)  # noqa: E731
    elif style == "closure":
        scale = 1.0

        def fn(x, *a, **k):
            return scale * rec(x)

    else:
        fn = rec
    if sc.get("use_cache"):
        p = FunctionProblem(fn, bounds=box, maximize=bool(sc["maximize"]), use_cache=True)
    else:
        p = FunctionProblem(fn, bounds=box, maximize=bool(sc["maximize"]))
    layers = []
    for w in wrappers:
        if w == "count":
            p = EvalCountingProblem(p)
        elif w == "stats":
            p = StatsGatheringProblem(p)
        elif w == "precision":
            p = PrecisionCutoffProblem(p, obj.sign * base_minimum(sc), sc.get("precision_eps", 1e-3))
        elif w == "cutoff":
            p = EvalCutoffProblem(p, int(sc["cutoff"]))
        else:
            raise ValueError(w)
        layers.append(p)
    return p, layers, rec


def build_lsc(spec: dict, decisions=None):
    k = spec["kind"]
    if k == "Queue":
        return QueueLSC(decisions)
    if k == "DontStop":
        return DontStop()
    if k == "DontRun":
        return DontRun()
    if k == "MetaepochLimit":
        return MetaepochLimit(int(spec["limit"]))
    if k == "FitnessSteadiness":
        return FitnessSteadiness(float(spec["max_deviation"]), int(spec["n_metaepochs"]))
    if k == "AllChildrenStopped":
        return AllChildrenStopped()
    if k == "Scripted":
        return ScriptedLSC(spec.get("tape", []))
    raise ValueError(k)


def build_level(sc: dict, i: int, problem, lsc, trace: Trace, proxy_engines: bool):
    lv = sc["levels"][i]
    ms = min(hi - lo for lo, hi in sc["box"])
    eng = lv["engine"]
    sample_std = lv.get("sample_std_frac", 0.1) * ms
    if eng in SEA_CLASSES:
        kw: dict[str, Any] = dict(
            mutation_std=lv.get("mutation_std_frac", 0.1) * ms,
            p_mutation=lv.get("p_mutation", 1.0),
            k_elites=lv.get("k_elites", 1),
        )
        if "p_crossover" in lv:
            kw["p_crossover"] = lv["p_crossover"]
        if eng == "SEAWithAdaptiveMutation":
            kw["mutation_std_step"] = lv.get("mutation_std_step_frac", 0.01) * ms
        if eng == "MWEA":
            kw["election_group_size"] = lv.get("election_group_size", lv["pop_size"])
        ea_class = SEA_CLASSES[eng]
        if proxy_engines:
            kw["inner_ea_class"] = ea_class
            kw["engine_trace"] = trace
            ea_class = ProxySEA
        return EALevelConfig(
            pop_size=lv["pop_size"], problem=problem, lsc=lsc, generations=lv["generations"], ea_class=ea_class, sample_std_dev=sample_std, **kw
        )
    if eng == "DE":
        return DELevelConfig(
            pop_size=lv["pop_size"], problem=problem, lsc=lsc, generations=lv["generations"], sample_std_dev=sample_std,
            dither=lv.get("dither", False), scaling=lv.get("scaling", 0.8), crossover=lv.get("crossover", 0.9),
        )
    if eng == "SHADE":
        return SHADELevelConfig(
            pop_size=lv["pop_size"], problem=problem, lsc=lsc, generations=lv["generations"], memory_size=lv.get("memory_size", 5), sample_std_dev=sample_std
        )
    if eng == "CMA":
        mode = lv.get("cma_mode", "sigma0")
        s0 = lv.get("sigma0_frac", 0.1) * ms
        if mode == "sigma0":
            return CMALevelConfig(problem=problem, lsc=lsc, generations=lv["generations"], sigma0=s0)
        if mode == "warm":
            return CMALevelConfig(problem=problem, lsc=lsc, generations=lv["generations"], sigma0=None)
        if mode == "set_stds":
            return CMALevelConfig(problem=problem, lsc=lsc, generations=lv["generations"], sigma0=None, set_stds=True)
        return CMALevelConfig(problem=problem, lsc=lsc, generations=lv["generations"], sigma0=1.0, set_stds=True)
    if eng == "Local":
        kw = {}
        if lv.get("maxiter") is not None:
            kw["maxiter"] = int(lv["maxiter"])
        return LocalOptimizationConfig(problem=problem, lsc=lsc, **kw)
    if eng == "LHS":
        return LHSLevelConfig(problem=problem, lsc=lsc, pop_size=lv["pop_size"])
    if eng == "Sobol":
        return SobolLevelConfig(problem=problem, lsc=lsc, pop_size=lv["pop_size"])
    if eng == "Custom":
        return RandomSearchConfig(problem=problem, lsc=lsc, pop_size=lv["pop_size"])
    raise ValueError(eng)


ENGINE_DEME_CLASS = {
    "DE": "DEDeme", "SHADE": "SHADEDeme", "CMA": "CMADeme", "Local": "LocalDeme", "LHS": "LHSDeme", "Sobol": "SobolDeme", "Custom": "RandomSearchDeme",
    "SEA": "EADeme", "SEAWithCrossover": "EADeme", "GAStyleSEA": "EADeme", "SEAWithAdaptiveMutation": "EADeme", "MWEA": "EADeme",
}


def build_gsc(sc: dict, precision_problem):
    g = sc["gsc"]
    k = g["kind"]
    if k == "MetaepochLimit":
        return MetaepochLimit(int(g["limit"]))
    if k == "SingularProblemEvalLimitReached":
        return SingularProblemEvalLimitReached(int(g["limit"]))
    if k == "FitnessEvalLimitReached":
        w = g.get("weights", "default")
        if w == "default":
            return FitnessEvalLimitReached(int(g["limit"]))
        if w == "equal":
            return FitnessEvalLimitReached(int(g["limit"]), WeightingStrategy.EQUAL)
        if w == "root":
            return FitnessEvalLimitReached(int(g["limit"]), WeightingStrategy.ROOT)
        if w == "none":
            return FitnessEvalLimitReached(int(g["limit"]), None)
        return FitnessEvalLimitReached(int(g["limit"]), list(g["weight_list"]))
    if k == "SingularProblemPrecisionReached":
        if precision_problem is None:
            raise ValueError("precision GSC needs a PrecisionCutoffProblem in the shared stack")
        return SingularProblemPrecisionReached(precision_problem)
    if k == "RootStopped":
        return RootStopped()
    if k == "AllStopped":
        return AllStopped()
    if k == "NoActiveNonrootDemes":
        return NoActiveNonrootDemes(int(g.get("n_metaepochs", 5)))
    if k == "DontRun":
        return DontRun()
    if k == "Never":
        return DontStop()
    raise ValueError(k)


def build_mechanism(sc: dict, trace: Trace, observe_chain: bool, decisions=None, raw=None):
    """returns (mechanism, raw) - raw holds the un-wrapped SproutMechanism and its components so that a later run can
    be given the very same objects (users routinely reuse one get_NBC_sprout() object for several trees)"""
    if raw is not None:
        mech = raw["mech"]
        mech.candidates_generator = ObservedGenerator(raw["gen"], trace) if observe_chain else raw["gen"]
        mech.deme_filter_chain = [ObservedDemeFilter(f, trace, i) for i, f in enumerate(raw["dfs"])] if observe_chain else list(raw["dfs"])
        mech.tree_filter_chain = [ObservedTreeFilter(f, trace, i) for i, f in enumerate(raw["tfs"])] if observe_chain else list(raw["tfs"])
        return mech, raw
    mech = _build_raw_mechanism(sc, decisions)
    raw = {"mech": mech, "gen": mech.candidates_generator, "dfs": list(mech.deme_filter_chain), "tfs": list(mech.tree_filter_chain)}
    if observe_chain:
        mech.candidates_generator = ObservedGenerator(mech.candidates_generator, trace)
        mech.deme_filter_chain = [ObservedDemeFilter(f, trace, i) for i, f in enumerate(mech.deme_filter_chain)]
        mech.tree_filter_chain = [ObservedTreeFilter(f, trace, i) for i, f in enumerate(mech.tree_filter_chain)]
    return mech, raw


def _build_raw_mechanism(sc: dict, decisions=None):
    s = sc["sprout"]
    ms = min(hi - lo for lo, hi in sc["box"])
    k = s["kind"]
    if k == "simple":
        mech = get_simple_sprout(s["far_enough_frac"] * ms, s["level_limit"])
    elif k == "nbc":
        mech = get_NBC_sprout(s["gen_dist_factor"], s["trunc_factor"], s["fil_dist_factor"], s["level_limit"])
    else:
        g = s["generator"]
        if g["kind"] == "BestPerDeme":
            gen = sg.BestPerDeme()
        elif g["kind"] == "NBC":
            gen = sg.NBC_Generator(g["distance_factor"], g["truncation_factor"])
        elif g["kind"] == "NBCLocal":
            gen = sg.NBCGeneratorWithLocalMethod(g["distance_factor"], g["truncation_factor"])
        elif g["kind"] == "Queue":
            gen = QueueGenerator(decisions, g.get("nbc_mean_distance_frac", 0.01) * ms)
        elif g["kind"] == "Scripted":
            gen = ScriptedGenerator(g.get("tape", []), g.get("default_k", 1), g.get("nbc_mean_distance_frac", 0.01) * ms)
        else:
            raise ValueError(g["kind"])
        dfs = []
        for f in s.get("deme_filters", []):
            if f["kind"] == "FarEnough":
                o = np.inf if f.get("norm_ord") == "inf" else f.get("norm_ord", 2)
                dfs.append(sf.FarEnough(f["min_distance_frac"] * ms, o))
            elif f["kind"] == "NBC_FarEnough":
                if g["kind"] == "BestPerDeme":
                    continue  # that generator provides no nbc_mean_distance feature (documented requirement)
                o = np.inf if f.get("norm_ord") == "inf" else f.get("norm_ord", 2)
                dfs.append(sf.NBC_FarEnough(f["factor"], o, f.get("check_only_active", False)))
            elif f["kind"] == "DemeLimit":
                dfs.append(sf.DemeLimit(int(f["limit"])))
            elif f["kind"] == "MahalanobisFarEnough":
                dfs.append(sf.MahalanobisFarEnough(float(f["percentile"])))
        tfs = []
        for f in s.get("tree_filters", []):
            if f["kind"] == "LevelLimit":
                tfs.append(sf.LevelLimit(int(f["limit"])))
            elif f["kind"] == "SkipSameSprout":
                tfs.append(sf.SkipSameSprout())
        mech = SproutMechanism(gen, dfs, tfs)
    return mech


def configured_level_limit(sc: dict) -> int | None:
    s = sc["sprout"]
    if s["kind"] in ("simple", "nbc"):
        return int(s["level_limit"])
    for f in s.get("tree_filters", []):
        if f["kind"] == "LevelLimit":
            return int(f["limit"])
    return None


# ------------------------------------------------------------------------------------------------
# checkers and runs


class Checker:
    prop = "C00"

    def __init__(self) -> None:
        self.violations: list[Violation] = []
        self._sigs: set[str] = set()

    def fail(self, sub: str, detail: str, **data) -> None:
        sig = f"{self.prop}/{sub}"
        if sig in self._sigs:
            return
        self._sigs.add(sig)
        self.violations.append(Violation(self.prop, sig, detail, data))

    # hooks -----------------------------------------------------------------
    def on_start(self, run) -> None: ...
    def on_gsc(self, run, e: GscEntry) -> None: ...
    def on_round(self, run, rnd: dict) -> None: ...
    def on_filter(self, run, e: dict) -> None: ...
    def on_boundary(self, run, k: int) -> None: ...
    def on_end(self, run) -> None: ...


from .timeouts import CaseTimeout, time_limit  # noqa: E402


def crash_bucket(exc: BaseException) -> str:
    tb = traceback.extract_tb(exc.__traceback__)
    inner = None
    for fr in tb:
        if fr.filename.startswith(PYHMS_DIR):
            inner = fr
    where = f"{inner.filename[len(PYHMS_DIR) + 1:]}:{inner.name}" if inner else "outside-pyhms"
    return f"{type(exc).__name__}@{where}"


class Run:
    """one monitored execution of a scenario"""

    def __init__(self, sc: dict, checkers=(), proxy_engines=False, observe_chain=False, sign=None, gsc_override=None, reuse_from=None):
        self.sc = sc
        self.checkers = list(checkers)
        self.trace = Trace()
        self.trace.listeners = self.checkers
        self.trace.run = self
        self.crash: tuple[str, str] | None = None
        self.boundaries = 0
        self.tree: DemeTree | None = None
        self.proxy_engines = proxy_engines
        self.observe_chain = observe_chain
        self.sign = sign
        self.gsc_override = gsc_override
        self.reuse_from = reuse_from  # an earlier Run whose sprout-mechanism objects this run is given again
        self.raw_mechanism = None
        self.level_problems: list = []
        self.level_layers: list = []
        self.recorders: list = []
        self.lsc_observers: list = []
        self.ended = False
        self.timed_out = False
        self.decisions = Decisions()

    # -- construction ---------------------------------------------------------
    def build_config(self) -> TreeConfig:
        sc = self.sc
        n = len(sc["levels"])
        shared = sc.get("shared_problem", False)
        probs, layers, recs = [], [], []
        if shared:
            p, ly, rec = build_problem(sc, self.trace, "shared", sc["levels"][0].get("wrappers", []), self.sign)
            probs, layers, recs = [p] * n, [ly] * n, [rec] * n
        else:
            for i in range(n):
                p, ly, rec = build_problem(sc, self.trace, i, sc["levels"][i].get("wrappers", []), self.sign)
                probs.append(p)
                layers.append(ly)
                recs.append(rec)
        self.level_problems, self.level_layers, self.recorders = probs, layers, recs
        precision_problem = None
        for ly in layers:
            for w in ly:
                if isinstance(w, PrecisionCutoffProblem):
                    precision_problem = precision_problem or w
        levels = []
        for i in range(n):
            lsc = ObservedLSC(build_lsc(sc["levels"][i]["lsc"], self.decisions), self.trace, i)
            self.lsc_observers.append(lsc)
            levels.append(build_level(sc, i, probs[i], lsc, self.trace, self.proxy_engines))
        inner_gsc = self.gsc_override if self.gsc_override is not None else build_gsc(sc, precision_problem)
        self.inner_gsc = inner_gsc
        self.gsc = CapOr(inner_gsc, int(sc["cap"]), self.trace, bool(sc.get("gsc_reads_best")))
        raw_prev = self.reuse_from.raw_mechanism if self.reuse_from is not None else None
        if raw_prev is not None and any(hasattr(c, "decisions") for c in [raw_prev["gen"]]):
            raw_prev["gen"].decisions = self.decisions
        mech, self.raw_mechanism = build_mechanism(sc, self.trace, self.observe_chain, self.decisions, raw_prev)
        self.mechanism = ObservedMechanism(mech, self.trace, sc)
        opts = dict(sc["options"])
        cfg = TreeConfig(levels, self.gsc, self.mechanism, options=opts, config_class_to_deme_class={RandomSearchConfig: RandomSearchDeme})
        self.config = cfg
        return cfg

    def start(self) -> bool:
        """build config + tree (the root's initial population is evaluated here). False on crash."""
        try:
            with time_limit():
                cfg = self.build_config()
                self.tree = DemeTree(cfg)
        except CaseTimeout as e:
            self.crash = ("timeout", str(e))
            self.timed_out = True
            return False
        except Exception as e:  # noqa: BLE001
            self.crash = (crash_bucket(e), "".join(traceback.format_exception(e))[-1500:])
            return False
        for ch in self.checkers:
            ch.on_start(self)
        return True

    def _boundary(self, tree) -> None:
        # one boundary per completed step: a second loop-head consultation without a step in between (manual stepping
        # followed by run(), or head() called twice) is the same boundary, not a metaepoch in which nothing ran
        # (a reloaded snapshot of the same moment counts as the same boundary too)
        if getattr(self, "_last_boundary_m", None) == tree.metaepoch_count:
            return
        self._last_boundary_m = tree.metaepoch_count
        k = self.boundaries
        self.boundaries += 1
        for ch in self.checkers:
            ch.on_boundary(self, k)

    # -- execution ------------------------------------------------------------
    def run_all(self) -> None:
        """the real DemeTree.run(); boundaries fire from the loop-head GSC consultations"""
        via_hms = self.tree is None and self.sc.get("entry") == "hms" and not any(lv["engine"] == "Custom" for lv in self.sc["levels"])
        if not via_hms and self.tree is None and not self.start():
            return
        try:
            with time_limit():
                if via_hms:
                    # the one-call entry point: hms(level_config, gsc, sprout_cond, options) builds config and tree and runs it
                    from pyhms.hms import hms as hms_entry

                    cfg = self.build_config()
                    self.via_hms = True
                    got = hms_entry(cfg.levels, self.gsc, self.mechanism, dict(self.sc["options"]))
                    if self.tree is None:  # (never consulted the stop condition)
                        self.tree = got
                        for ch in self.checkers:
                            ch.on_start(self)
                    self.config = got.config
                else:
                    self.tree.run()
        except CaseTimeout as e:
            self.crash = ("timeout", str(e))
            self.timed_out = True
        except Exception as e:  # noqa: BLE001
            self.crash = (crash_bucket(e), "".join(traceback.format_exception(e))[-1500:])
        self.finish()

    def head(self) -> bool:
        """loop-head consultation made by the harness (manual stepping)"""
        return self.gsc(self.tree)

    def step(self) -> bool:
        try:
            self.tree.run_step()
            return True
        except Exception as e:  # noqa: BLE001
            self.crash = (crash_bucket(e), "".join(traceback.format_exception(e))[-1500:])
            return False

    def run_stepwise(self) -> None:
        if self.tree is None and not self.start():
            return
        try:
            with time_limit():
                while not self.head():
                    self.tree.run_step()
        except CaseTimeout as e:
            self.crash = ("timeout", str(e))
            self.timed_out = True
        except Exception as e:  # noqa: BLE001
            self.crash = (crash_bucket(e), "".join(traceback.format_exception(e))[-1500:])
        self.finish()

    def finish(self) -> None:
        if self.ended:
            return
        self.ended = True
        if self.timed_out:
            return
        if self.tree is not None and not self.crash:
            # the state run() returned with is a metaepoch boundary whether or not the loop consulted the condition once
            # more at its head (no-op if that boundary has been observed already)
            try:
                self._boundary(self.tree)
            except Exception as e:  # noqa: BLE001
                self.crash = (crash_bucket(e), "".join(traceback.format_exception(e))[-1500:])
        for ch in self.checkers:
            ch.on_end(self)

    @property
    def violations(self) -> list[Violation]:
        out = []
        for ch in self.checkers:
            out.extend(ch.violations)
        return out

    # -- helpers for labels ---------------------------------------------------
    def shape(self) -> dict:
        t = self.tree
        if t is None:
            return {"demes": 0}
        return {
            "demes": [len(l) for l in t.levels],
            "metaepochs": t.metaepoch_count,
            "evals": len(self.trace.calls),
            "rounds": len(self.trace.rounds),
            "sprouts": sum(len(v) for r in self.trace.rounds for v in r["seeds"].values()),
        }
