"""Executed in a fresh interpreter: reads scenarios (JSON list) from a file, runs each after junk
pre-draws from the global generators, prints [digest, summary-hash] per scenario as JSON."""
import hashlib
import json
import random
import sys
import warnings


def summary_fingerprint(tree) -> str:
    text = tree.summary()
    lines = [ln for ln in text.split("\n") if not ln.startswith("Problem duration")]
    return hashlib.sha256("\n".join(lines).encode()).hexdigest()[:16]


def main():
    warnings.filterwarnings("ignore")
    path, junk = sys.argv[1], int(sys.argv[2])
    from pbt.common import setup_repo_path

    setup_repo_path()
    import numpy as np

    from pbt.digest import tree_digest
    from pbt.harness import Run

    with open(path) as f:
        scs = json.load(f)
    out = []
    for i, sc in enumerate(scs):
        np.random.seed((junk * 7919 + i) % (2**31))
        random.seed(junk + i)
        np.random.rand(junk % 17 + i % 5)
        random.random()
        r = Run(sc)
        r.run_all()
        if r.crash or r.tree is None:
            out.append(["CRASH", r.crash[0] if r.crash else "no tree"])
        else:
            out.append([tree_digest(r.tree), summary_fingerprint(r.tree)])
    print("C14RESULT " + json.dumps(out))


if __name__ == "__main__":
    main()
