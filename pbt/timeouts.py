"""Per-case wall budget (SIGALRM based). A case that exceeds it is inconclusive: counted, never a violation."""
from __future__ import annotations

import contextlib
import os
import signal

CASE_TIMEOUT_S = float(os.environ.get("VERIF_CASE_TIMEOUT", "30"))
_ACTIVE = False


class CaseTimeout(BaseException):
    pass


@contextlib.contextmanager
def time_limit(seconds: float | None = None):
    global _ACTIVE
    seconds = CASE_TIMEOUT_S if seconds is None else seconds
    if seconds <= 0 or not hasattr(signal, "setitimer") or _ACTIVE:
        yield  # re-entrant: an enclosing limit is already armed
        return

    def _raise(signum, frame):
        raise CaseTimeout(f"case exceeded {seconds}s")

    try:
        old = signal.signal(signal.SIGALRM, _raise)
    except ValueError:  # not in the main thread
        yield
        return
    # periodic after the first expiry: should some library swallow the exception, it is raised again a second later
    signal.setitimer(signal.ITIMER_REAL, seconds, 1.0)
    _ACTIVE = True
    try:
        yield
    finally:
        _ACTIVE = False
        signal.setitimer(signal.ITIMER_REAL, 0)
        signal.signal(signal.SIGALRM, old)
