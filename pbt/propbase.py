"""Boilerplate shared by the scenario-based property modules."""
from __future__ import annotations

from typing import Callable

from .common import Tally
from .runprop import replay_scenario, scenario_shard


class ScenarioProperty:
    def __init__(
        self,
        prop: str,
        profile: dict,
        make_checkers: Callable[[dict], list],
        judge: Callable,
        quick: int,
        thorough: int,
        run_kwargs: dict | None = None,
        crash_is_violation: bool = False,
        post=None,
        stepwise: bool = False,
    ):
        self.prop = prop
        self.profile = profile
        self.make_checkers = make_checkers
        self.judge = judge
        self.budget = {"quick": quick, "thorough": thorough}
        self.run_kwargs = run_kwargs or {}
        self.crash_is_violation = crash_is_violation
        self.post = post
        self.stepwise = stepwise

    def n_examples(self, tier: str, nshards: int, scale: float) -> int:
        return max(3, int(self.budget[tier] * scale / nshards))

    def run_shard(self, tier, seed, shard, nshards, tally: Tally, scale: float = 1.0, salt: int = 0):
        return scenario_shard(
            self.prop,
            tally,
            seed,
            shard,
            self.n_examples(tier, nshards, scale),
            self.profile,
            self.make_checkers,
            self.judge,
            run_kwargs=self.run_kwargs,
            crash_is_violation=self.crash_is_violation,
            stepwise=self.stepwise,
            salt=salt,
            post=self.post,
        )

    def replay(self, case, kind=""):
        return replay_scenario(
            case, self.make_checkers, self.run_kwargs, self.crash_is_violation, self.prop, stepwise=self.stepwise, post=self.post
        )
