"""Boilerplate shared by the scenario-based property modules."""
from __future__ import annotations

from typing import Callable

from .common import Tally
from .runprop import replay_scenario, scenario_shard


class ScenarioProperty:
    def __init__(
        self,
        prop: str,
        profile: dict,
        make_checkers: Callable[[dict], list],
        judge: Callable,
        quick: int,
        thorough: int,
        run_kwargs: dict | None = None,
        crash_is_violation: bool = False,
        post=None,
        stepwise: bool = False,
        machine: dict | None = None,
        keep_on_crash: bool = False,
    ):
        self.prop = prop
        self.profile = profile
        self.make_checkers = make_checkers
        self.judge = judge
        self.budget = {"quick": quick, "thorough": thorough}
        self.run_kwargs = run_kwargs or {}
        self.crash_is_violation = crash_is_violation
        self.post = post
        self.stepwise = stepwise
        # machine: None, or kwargs for machine.make_tree_machine (profile=, roundtrip_checks=, allow_reload=, ...)
        self.machine = machine
        self.keep_on_crash = keep_on_crash

    def n_examples(self, tier: str, nshards: int, scale: float) -> int:
        return max(3, int(self.budget[tier] * scale / nshards))

    def machine_shard(self, tier, seed, shard, nshards, tally: Tally, scale: float = 1.0):
        from .common import shard_seed
        from .driver import machine_drive
        from .machine import make_tree_machine

        kw = dict(self.machine)
        budget = kw.pop("budget", (240, 6000))
        n = max(2, int({"quick": budget[0], "thorough": budget[1]}[tier] * scale / nshards))
        steps = {"quick": 12, "thorough": 30}[tier]
        kw.setdefault("crash_is_violation", self.crash_is_violation)
        kw.setdefault("run_kwargs", {k: v for k, v in self.run_kwargs.items() if k in ("observe_chain", "proxy_engines")})
        return machine_drive(
            self.prop,
            lambda coll, tl: make_tree_machine(self.prop, self.make_checkers, self.judge, coll, tl, **kw),
            tally=tally,
            max_examples=n,
            steps=steps,
            seed=shard_seed(seed, shard, 11),
            kind="machine",
        )

    def run_shard(self, tier, seed, shard, nshards, tally: Tally, scale: float = 1.0, salt: int = 0):
        fs = self._scenario_shard(tier, seed, shard, nshards, tally, scale, salt)
        if self.machine is not None:
            fs += self.machine_shard(tier, seed, shard, nshards, tally, scale)
        return fs

    def _scenario_shard(self, tier, seed, shard, nshards, tally: Tally, scale: float = 1.0, salt: int = 0):
        return scenario_shard(
            self.prop,
            tally,
            seed,
            shard,
            self.n_examples(tier, nshards, scale),
            self.profile,
            self.make_checkers,
            self.judge,
            run_kwargs=self.run_kwargs,
            crash_is_violation=self.crash_is_violation,
            stepwise=self.stepwise,
            salt=salt,
            post=self.post,
            keep_on_crash=self.keep_on_crash,
        )

    def replay(self, case, kind=""):
        if kind == "machine" or (isinstance(case, dict) and "ops" in case and "scenario" in case):
            from .machine import replay_machine

            kw = self.machine or {}
            return replay_machine(case, self.prop, self.make_checkers, kw.get("roundtrip_checks", False), kw.get("crash_is_violation", self.crash_is_violation), {k: v for k, v in self.run_kwargs.items() if k in ("observe_chain", "proxy_engines")})
        return replay_scenario(
            case, self.make_checkers, self.run_kwargs, self.crash_is_violation, self.prop, stepwise=self.stepwise, post=self.post, keep_on_crash=self.keep_on_crash
        )
