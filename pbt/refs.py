"""Reference models written from the property statements (not from the code)."""
from __future__ import annotations

import math

import numpy as np


def _better(maximize: bool, a: float, b: float) -> bool:
    return a > b if maximize else a < b


def ref_nbc(genomes, fitness, maximize: bool, distance_factor: float, truncation: float):
    """Nearest-better clustering by definition, O(n^2), plain loops.

    returns dict(kept=indices kept after truncation (best first, ties in input order),
                 nbd={index: nearest-better distance} for every kept non-best index,
                 mean=mean of those distances (None if there are none),
                 seeds=set of indices: the best + every index with nbd > factor*mean,
                 margins=list of |nbd - factor*mean| / (factor*mean) for ambiguity classification,
                 cut_tie=True if a fitness tie straddles the truncation cut)"""
    n = len(genomes)
    G = [np.asarray(g, dtype=float) for g in genomes]
    order = sorted(range(n), key=lambda i: (-fitness[i] if maximize else fitness[i]))  # stable: ties keep input order
    k = int(n * truncation)
    kept = order[:k]
    cut_tie = k < n and k >= 1 and fitness[order[k - 1]] == fitness[order[k]]
    out = {"kept": kept, "nbd": {}, "mean": None, "seeds": set(), "margins": [], "cut_tie": cut_tie}
    if not kept:
        return out
    best = kept[0]
    for i in kept[1:]:
        if fitness[i] == fitness[best]:
            cands = [best]
        else:
            cands = [j for j in kept if _better(maximize, fitness[j], fitness[i])]
        dmin = math.inf
        for j in cands:
            d = float(np.sqrt(np.sum((G[i] - G[j]) ** 2)))
            if d < dmin:
                dmin = d
        out["nbd"][i] = dmin
    out["seeds"].add(best)
    if out["nbd"]:
        mean = sum(out["nbd"].values()) / len(out["nbd"])
        out["mean"] = mean
        thr = distance_factor * mean
        for i, d in out["nbd"].items():
            if d > thr:
                out["seeds"].add(i)
            if thr > 0:
                out["margins"].append(abs(d - thr) / thr)
            else:
                out["margins"].append(math.inf if d > 0 else 0.0)
    return out


def ref_nbc_mean_distance(genomes, fitness, maximize: bool, truncation: float):
    r = ref_nbc(genomes, fitness, maximize, 1.0, truncation)
    return r["mean"]
