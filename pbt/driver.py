"""Hypothesis driving: seeded, database-less, collect-then-shrink, bounded shrinking."""
from __future__ import annotations

import json
import time
import traceback
from typing import Any, Callable

import hypothesis
from hypothesis import HealthCheck, Phase, given, settings
from hypothesis import strategies as st

from .common import HarnessError, PropertyViolated, Tally, Violation, jsonable, open_signatures
from .timeouts import CaseTimeout, time_limit


def _pyhms_bucket(exc: BaseException):
    """'Type@file:function' of the innermost pyhms frame of the traceback, or None if pyhms is not involved"""
    import os
    import traceback as _tb

    try:
        import pyhms

        root = os.path.dirname(os.path.abspath(pyhms.__file__))
    except Exception:  # noqa: BLE001
        return None
    inner = None
    for fr in _tb.extract_tb(exc.__traceback__):
        if os.path.abspath(fr.filename).startswith(root):
            inner = fr
    if inner is None:
        return None
    return f"{type(exc).__name__}@{os.path.relpath(inner.filename, root)}:{inner.name}"


def base_settings(max_examples: int, **kw) -> settings:
    return settings(
        max_examples=max_examples,
        database=None,
        deadline=None,
        derandomize=False,
        report_multiple_bugs=False,
        print_blob=False,
        suppress_health_check=[HealthCheck.too_slow, HealthCheck.data_too_large, HealthCheck.large_base_example],
        **kw,
    )


class Failure:
    def __init__(self, prop: str, signature: str, case: Any, violations: list[Violation], kind: str):
        self.prop = prop
        self.signature = signature
        self.case = jsonable(case)
        self.violations = violations
        self.kind = kind

    def size(self) -> int:
        return len(json.dumps(self.case, sort_keys=True))


class Collector:
    """Decides what to do with the violations of one case.

    * signatures listed as *open* known findings: counted, not raised;
    * signatures already found in an earlier round (excluded): counted, not raised;
    * anything else: recorded (smallest case kept per signature) and raised so Hypothesis shrinks.
    After `shrink_budget_s` seconds since the first raise the collector goes quiet, which makes
    the shrinker converge at once (see hyp_drive)."""

    def __init__(self, prop: str, tally: Tally, kind: str, shrink_budget_s: float):
        self.prop = prop
        self.tally = tally
        self.kind = kind
        self.known = open_signatures(prop)
        self.excluded: set[str] = set()
        self.best: dict[str, Failure] = {}
        self.first_raise_t: float | None = None
        self.shrink_budget_s = shrink_budget_s
        self.target: str | None = None

    def quiet(self) -> bool:
        return self.first_raise_t is not None and time.monotonic() - self.first_raise_t > self.shrink_budget_s

    def handle(self, case: Any, violations: list[Violation]) -> None:
        fresh = []
        for v in violations:
            if v.signature in self.known:
                self.tally.known_hits[v.signature] = self.tally.known_hits.get(v.signature, 0) + 1
            elif v.signature in self.excluded:
                self.tally.count("excluded_hits")
            else:
                fresh.append(v)
        if not fresh:
            return
        # once shrinking a signature, keep to that signature (so the minimal case belongs to one root cause)
        if self.target is not None:
            fresh = [v for v in fresh if v.signature == self.target]
            if not fresh:
                return
        else:
            self.target = fresh[0].signature
            fresh = [v for v in fresh if v.signature == self.target]
        f = Failure(self.prop, self.target, case, fresh, self.kind)
        cur = self.best.get(self.target)
        if cur is None or f.size() <= cur.size():
            self.best[self.target] = f
        if self.first_raise_t is None:
            self.first_raise_t = time.monotonic()
        raise PropertyViolated(fresh)

    def next_round(self) -> None:
        if self.target is not None:
            self.excluded.add(self.target)
        self.target = None
        self.first_raise_t = None


def hyp_drive(
    prop: str,
    strategy: st.SearchStrategy,
    body: Callable[[Any], list[Violation]],
    *,
    tally: Tally,
    max_examples: int,
    seed: int,
    kind: str,
    shrink_budget_s: float = 45.0,
    max_rounds: int = 3,
) -> list[Failure]:
    """Run `body` over generated cases. body(case) returns all violations it saw on that case
    (it must also do the tally bookkeeping). Returns one minimal Failure per distinct signature."""
    coll = Collector(prop, tally, kind, shrink_budget_s)
    remaining = max_examples
    executed = [0]
    for rnd in range(max_rounds):
        if remaining <= 0:
            break
        executed[0] = 0

        def test(case):
            if coll.quiet():
                return  # shrink budget exhausted: let the shrinker finish immediately
            executed[0] += 1
            try:
                with time_limit():
                    vs = body(case)
            except CaseTimeout:
                tally.aborted["timeout"] = tally.aborted.get("timeout", 0) + 1
                return
            except (PropertyViolated, HarnessError):
                raise
            except Exception as e:  # noqa: BLE001
                # pyhms raised on a generated input of a direct (non-run) tier: that is a finding about pyhms
                # ("any valid input is handled"), not a harness error - unless the exception is ours
                bucket = _pyhms_bucket(e)
                if bucket is None:
                    raise
                vs = [Violation(prop, f"{prop}/raised/{bucket}", f"pyhms raised {type(e).__name__}: {e} on a generated valid input")]
            coll.handle(case, vs)

        wrapped = hypothesis.seed(seed + rnd * 15485863)(
            base_settings(max(1, remaining), phases=[Phase.generate, Phase.shrink])(given(strategy)(test))
        )
        try:
            wrapped()
            break  # no fresh failure
        except PropertyViolated:
            pass
        except hypothesis.errors.Flaky:
            if coll.target is None:
                raise HarnessError("Hypothesis reported flakiness without a recorded failure:\n" + traceback.format_exc())
        except hypothesis.errors.FailedHealthCheck as e:
            raise HarnessError(f"health check failed (generator problem, not a defect): {e}")
        except hypothesis.errors.HypothesisException as e:
            if coll.target is None:
                raise HarnessError(f"hypothesis error: {type(e).__name__}: {e}")
        except BaseExceptionGroup as eg:  # noqa: F821  (py3.11+)
            if coll.target is None:
                raise HarnessError("unexpected exception group:\n" + "".join(traceback.format_exception(eg)))
        if coll.target is None:
            break
        remaining -= executed[0]
        coll.next_round()
    return list(coll.best.values())


def replay_case(prop: str, case: Any, body: Callable[[Any], list[Violation]]) -> list[Violation]:
    return body(case)


# ------------------------------------------------------------------------------------------------
# stateful machines


def machine_drive(
    prop: str,
    make_machine,  # (collector, tally) -> RuleBasedStateMachine subclass
    *,
    tally: Tally,
    max_examples: int,
    steps: int,
    seed: int,
    kind: str,
    shrink_budget_s: float = 45.0,
    max_rounds: int = 3,
) -> list[Failure]:
    """Run a rule-based state machine. The machine reports through collector.handle(case, violations)
    from its invariants (raising PropertyViolated for fresh signatures) and must do nothing when
    collector.quiet() is true."""
    from hypothesis.stateful import run_state_machine_as_test

    coll = Collector(prop, tally, kind, shrink_budget_s)
    remaining = max_examples
    for rnd in range(max_rounds):
        if remaining <= 0:
            break
        before = tally.cases
        cls = make_machine(coll, tally)
        seeded = hypothesis.seed(seed + rnd * 15485863)(cls)
        try:
            run_state_machine_as_test(
                seeded, settings=base_settings(max(1, remaining), stateful_step_count=steps, phases=[Phase.generate, Phase.shrink])
            )
            break
        except PropertyViolated:
            pass
        except hypothesis.errors.Flaky:
            if coll.target is None:
                raise HarnessError("Hypothesis reported flakiness without a recorded failure:\n" + traceback.format_exc())
        except hypothesis.errors.FailedHealthCheck as e:
            raise HarnessError(f"health check failed (generator problem, not a defect): {e}")
        except hypothesis.errors.HypothesisException as e:
            if coll.target is None:
                raise HarnessError(f"hypothesis error: {type(e).__name__}: {e}")
        except BaseExceptionGroup as eg:  # noqa: F821
            if coll.target is None:
                raise HarnessError("unexpected exception group:\n" + "".join(traceback.format_exception(eg)))
        if coll.target is None:
            break
        remaining -= max(1, tally.cases - before)
        coll.next_round()
    return list(coll.best.values())
