"""python -m pbt.run <Cxx> [--tier quick|thorough] [--replay FILE] [--shards N] [--scale F]

exit 0: property held on everything explored (KNOWN-FINDING lines possible)
exit 1: VIOLATION property=<id> replay=<path>
exit 2: harness error (never a violation)
"""
from __future__ import annotations

import argparse
import importlib
import json
import multiprocessing as mp
import os
import sys
import traceback

from .common import (
    HarnessError,
    Stopwatch,
    Tally,
    Violation,
    jsonable,
    open_signatures,
    setup_repo_path,
    verif_seed,
    write_evidence,
    write_replay,
)

PROPS = [f"C{i:02d}" for i in range(1, 21)]


def _load(prop: str):
    return importlib.import_module(f"pbt.props.{prop.lower()}")


def _die_with_parent():
    """shard processes must not outlive a killed parent (they would keep spinning on a hung case)"""
    import threading
    import time

    ppid = os.getppid()

    def watch():
        while True:
            time.sleep(5)
            if os.getppid() != ppid:
                os._exit(3)

    threading.Thread(target=watch, daemon=True).start()


def _worker(args):
    prop, tier, seed, shard, nshards, scale = args
    _die_with_parent()
    try:
        import warnings

        warnings.filterwarnings("ignore")
        setup_repo_path()
        mod = _load(prop)
        tally = Tally()
        failures = mod.run_shard(tier=tier, seed=seed, shard=shard, nshards=nshards, tally=tally, scale=scale)
        return {
            "ok": True,
            "tally": tally,
            "failures": [
                {"signature": f.signature, "case": f.case, "violations": f.violations, "kind": f.kind, "size": f.size()}
                for f in failures
            ],
        }
    except HarnessError as e:
        return {"ok": False, "error": f"HarnessError in shard {shard}: {e}"}
    except BaseException:
        return {"ok": False, "error": f"unexpected exception in shard {shard}:\n{traceback.format_exc()}"}


def main(argv=None) -> int:
    ap = argparse.ArgumentParser()
    ap.add_argument("prop")
    ap.add_argument("--tier", default=os.environ.get("VERIF_TIER", "quick"), choices=["quick", "thorough"])
    ap.add_argument("--replay", default=None)
    ap.add_argument("--shards", type=int, default=int(os.environ.get("VERIF_SHARDS", "16")))
    ap.add_argument("--scale", type=float, default=float(os.environ.get("VERIF_SCALE", "1.0")))
    ns = ap.parse_args(argv)
    prop = ns.prop.upper()
    if prop not in PROPS:
        print(f"unknown property {prop}", file=sys.stderr)
        return 2
    sw = Stopwatch()
    try:
        repo = setup_repo_path()
        mod = _load(prop)
    except BaseException:
        print("HARNESS-ERROR: cannot import pyhms / property module\n" + traceback.format_exc(), file=sys.stderr)
        return 2

    if ns.replay:
        return _replay(prop, mod, ns.replay)

    seed = verif_seed()
    nshards = max(1, ns.shards)

    # replay tier: saved inputs of earlier findings (fixed or open) run first, without Hypothesis
    reg_failures, n_reg, reg_known = _regressions(prop, mod)
    jobs = [(prop, ns.tier, seed, i, nshards, ns.scale) for i in range(nshards)]
    if nshards == 1:
        results = [_worker(jobs[0])]
    else:
        # (an executor, not mp.Pool: Pool.map waits forever when a worker process dies)
        from concurrent.futures import ProcessPoolExecutor
        from concurrent.futures.process import BrokenProcessPool

        ctx = mp.get_context("spawn")
        try:
            with ProcessPoolExecutor(min(nshards, os.cpu_count() or 1), mp_context=ctx) as pool:
                results = list(pool.map(_worker, jobs, chunksize=1))
        except BrokenProcessPool as e:
            print(f"HARNESS-ERROR: a shard process died without reporting ({e})", file=sys.stderr)
            return 2

    errors = [r["error"] for r in results if not r["ok"]]
    if errors:
        print("HARNESS-ERROR:\n" + "\n".join(errors), file=sys.stderr)
        return 2

    tally = Tally()
    by_sig: dict[str, dict] = dict(reg_failures)
    tally.count("regression_replays", n_reg)
    for k, v in reg_known.items():
        tally.known_hits[k] = tally.known_hits.get(k, 0) + v
    for r in results:
        tally.merge(r["tally"])
        for f in r["failures"]:
            cur = by_sig.get(f["signature"])
            if cur is None or f["size"] < cur["size"]:
                by_sig[f["signature"]] = f

    known = open_signatures(prop)
    for sig, n in sorted(tally.known_hits.items()):
        print(f"KNOWN-FINDING: property={prop} {known[sig]['what_fails']} [signature={sig} hits={n}]")

    replay_paths = []
    for sig, f in sorted(by_sig.items()):
        path = write_replay(prop, sig, f["case"], f["violations"], f["kind"])
        replay_paths.append(path)
        v0 = f["violations"][0]
        print(f"  signature={sig}: {v0.detail}"[:600])
        print(f"VIOLATION property={prop} replay={path}")

    try:
        extra = {
            "labels": dict(sorted(tally.labels.items())),
            "known_hits": tally.known_hits,
            "aborted_by_foreign_defect": tally.aborted,
            "counters": dict(sorted(tally.extra.items())),
            "shards": nshards,
            "repo": repo,
        }
        write_evidence(
            prop,
            ns.tier,
            seed,
            evaluations=tally.cases,
            distinct_nontrivial=len(tally.nontrivial),
            rule=mod.RULE,
            samples=tally.samples,
            wall_s=sw.elapsed(),
            violations=len(by_sig),
            assumptions=mod.ASSUMPTIONS,
            extra=extra,
        )
    except BaseException:
        print("HARNESS-ERROR: cannot write evidence\n" + traceback.format_exc(), file=sys.stderr)
        return 2

    print(
        f"{prop} tier={ns.tier} seed={seed} cases={tally.cases} nontrivial={len(tally.nontrivial)} "
        f"known_hits={sum(tally.known_hits.values())} aborted={sum(tally.aborted.values())} "
        f"violations={len(by_sig)} wall={sw.elapsed():.1f}s"
    )
    return 1 if by_sig else 0


def _regressions(prop: str, mod):
    """every file under regressions/<prop>/ is re-run; a violation not listed as open is a failure"""
    from .common import VERIF_DIR

    d = os.path.join(VERIF_DIR, "regressions", prop)
    out: dict[str, dict] = {}
    n = 0
    known_hits: dict[str, int] = {}
    if not os.path.isdir(d):
        return out, n, known_hits
    known = open_signatures(prop)
    for name in sorted(os.listdir(d)):
        if not name.endswith(".json"):
            continue
        with open(os.path.join(d, name)) as f:
            body = json.load(f)
        n += 1
        vs = mod.replay(body["case"], body.get("kind", ""))
        for v in vs:
            if v.signature in known:
                known_hits[v.signature] = known_hits.get(v.signature, 0) + 1
                continue
            if v.signature not in out:
                out[v.signature] = {
                    "signature": v.signature,
                    "case": body["case"],
                    "violations": [v],
                    "kind": body.get("kind", ""),
                    "size": len(json.dumps(body["case"])),
                }
    return out, n, known_hits


def _replay(prop: str, mod, path: str) -> int:
    try:
        with open(path) as f:
            body = json.load(f)
        vs: list[Violation] = mod.replay(body["case"], body.get("kind", ""))
    except BaseException:
        print("HARNESS-ERROR: replay failed\n" + traceback.format_exc(), file=sys.stderr)
        return 2
    known = open_signatures(prop)
    bad = [v for v in vs if v.signature not in known]
    for v in vs:
        tag = "known" if v.signature in known else "VIOLATED"
        print(f"  [{tag}] {v.signature}: {v.detail}"[:800])
    if bad:
        print(f"VIOLATION property={prop} replay={os.path.abspath(path)}")
        return 1
    print(f"{prop} replay: no violation")
    return 0


if __name__ == "__main__":
    sys.exit(main())
