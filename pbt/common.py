"""Shared plumbing: violations, known findings, JSON helpers, evidence, seeds."""
from __future__ import annotations

import hashlib
import json
import os
import sys
import time
from dataclasses import dataclass, field
from typing import Any

VERIF_DIR = os.path.dirname(os.path.dirname(os.path.abspath(__file__)))
# VERIF_OUT_DIR redirects evidence and replay files (used by tools/sensitivity.py so that runs against
# deliberately broken scratch copies never overwrite the evidence of /repo itself)
_OUT = os.environ.get("VERIF_OUT_DIR") or VERIF_DIR
EVIDENCE_DIR = os.path.join(_OUT, "evidence")
REPLAY_DIR = os.path.join(_OUT, "replays")
KNOWN_FINDINGS = os.path.join(VERIF_DIR, "known_findings.json")


def setup_repo_path() -> str:
    """pyhms is installed in development mode (-> /repo). VERIF_REPO overrides."""
    repo = os.environ.get("VERIF_REPO")
    if repo:
        sys.path.insert(0, repo)
    import pyhms  # noqa: F401

    return os.path.dirname(os.path.dirname(os.path.abspath(pyhms.__file__)))


def verif_seed() -> int:
    try:
        return int(os.environ.get("VERIF_SEED", "1"))
    except ValueError:
        return 1


def shard_seed(seed: int, shard: int, salt: int = 0) -> int:
    return (seed * 1000003 + shard * 7919 + salt * 104729) % (2**63)


@dataclass
class Violation:
    prop: str  # "C03"
    signature: str  # root-cause class, e.g. "C03/minimize-nfev-exceeds-calls"
    detail: str  # human readable
    data: dict = field(default_factory=dict)  # small JSON-able extras

    def to_json(self) -> dict:
        return {"property": self.prop, "signature": self.signature, "detail": self.detail, "data": jsonable(self.data)}


class PropertyViolated(Exception):
    """Raised inside a Hypothesis test body for an unlisted violation."""

    def __init__(self, violations: list[Violation]):
        super().__init__("; ".join(f"{v.signature}: {v.detail}" for v in violations[:3]))
        self.violations = violations


class HarnessError(Exception):
    """Something is wrong with the machinery itself (exit status 2)."""


def jsonable(obj: Any) -> Any:
    import numpy as np

    if isinstance(obj, dict):
        return {str(k): jsonable(v) for k, v in obj.items()}
    if isinstance(obj, (list, tuple, set, frozenset)):
        return [jsonable(v) for v in obj]
    if isinstance(obj, np.ndarray):
        return [jsonable(v) for v in obj.tolist()]
    if isinstance(obj, (np.floating,)):
        return jsonable(float(obj))
    if isinstance(obj, (np.integer,)):
        return int(obj)
    if isinstance(obj, (np.bool_,)):
        return bool(obj)
    if isinstance(obj, float):
        if obj != obj:
            return "nan"
        if obj in (float("inf"), float("-inf")):
            return "inf" if obj > 0 else "-inf"
        return obj
    if isinstance(obj, (int, str, bool)) or obj is None:
        return obj
    if isinstance(obj, bytes):
        return obj.hex()
    return repr(obj)


def fl(x: Any) -> float:
    """inverse of jsonable() for floats"""
    if isinstance(x, str):
        return float(x)
    return float(x)


def case_digest(case: Any) -> str:
    return hashlib.sha256(json.dumps(jsonable(case), sort_keys=True).encode()).hexdigest()[:16]


def load_known_findings() -> list[dict]:
    if not os.path.exists(KNOWN_FINDINGS):
        return []
    with open(KNOWN_FINDINGS) as f:
        data = json.load(f)
    return data.get("findings", [])


def open_signatures(prop: str) -> dict[str, dict]:
    return {
        e["signature"]: e for e in load_known_findings() if e.get("property") == prop and e.get("status") == "open"
    }


def write_replay(prop: str, signature: str, case: Any, violations: list[Violation], kind: str) -> str:
    os.makedirs(REPLAY_DIR, exist_ok=True)
    body = {
        "property": prop,
        "signature": signature,
        "kind": kind,
        "case": jsonable(case),
        "violations": [v.to_json() for v in violations[:5]],
    }
    h = case_digest(body["case"])
    safe = signature.replace("/", "-").replace(" ", "_")[:80]
    path = os.path.join(REPLAY_DIR, f"{safe}-{h}.json")
    with open(path, "w") as f:
        json.dump(body, f, indent=1, sort_keys=True)
    return path


def write_evidence(
    prop: str,
    tier: str,
    seed: int,
    evaluations: int,
    distinct_nontrivial: int,
    rule: str,
    samples: list,
    wall_s: float,
    violations: int,
    assumptions: list[str],
    extra: dict | None = None,
) -> str:
    os.makedirs(EVIDENCE_DIR, exist_ok=True)
    cov = {
        "evaluations": int(evaluations),
        "distinct_nontrivial": int(distinct_nontrivial),
        "rule": rule,
        "samples": jsonable(samples[:6]),
    }
    if extra:
        cov.update(jsonable(extra))
    ev = {
        "property_id": prop,
        "tier": tier,
        "seed": int(seed),
        "level": "exploration",
        "coverage": cov,
        "assumptions": assumptions,
        "wall_s": round(float(wall_s), 3),
        "violations": int(violations),
    }
    path = os.path.join(EVIDENCE_DIR, f"{prop}.json")
    tmp = path + ".tmp"
    with open(tmp, "w") as f:
        json.dump(ev, f, indent=1, sort_keys=True)
    os.replace(tmp, path)
    return path


class Stopwatch:
    def __init__(self) -> None:
        self.t0 = time.monotonic()

    def elapsed(self) -> float:
        return time.monotonic() - self.t0


class Tally:
    """Counters + label histogram + distinct-nontrivial digests + samples; mergeable across shards."""

    def __init__(self) -> None:
        self.cases = 0
        self.labels: dict[str, int] = {}
        self.nontrivial: set[str] = set()
        self.samples: list = []
        self.known_hits: dict[str, int] = {}
        self.aborted: dict[str, int] = {}
        self.extra: dict[str, int] = {}

    def label(self, name: str, n: int = 1) -> None:
        self.labels[name] = self.labels.get(name, 0) + n

    def count(self, name: str, n: int = 1) -> None:
        self.extra[name] = self.extra.get(name, 0) + n

    def add_case(self, case: Any, nontrivial: bool, sample_cap: int = 4, sample: Any = None) -> None:
        self.cases += 1
        if nontrivial:
            d = case_digest(case)
            if d not in self.nontrivial:
                self.nontrivial.add(d)
                if len(self.samples) < sample_cap:
                    self.samples.append(jsonable(sample if sample is not None else case))

    def merge(self, other: "Tally") -> None:
        self.cases += other.cases
        for k, v in other.labels.items():
            self.labels[k] = self.labels.get(k, 0) + v
        self.nontrivial |= other.nontrivial
        for s in other.samples:
            if len(self.samples) < 6:
                self.samples.append(s)
        for k, v in other.known_hits.items():
            self.known_hits[k] = self.known_hits.get(k, 0) + v
        for k, v in other.aborted.items():
            self.aborted[k] = self.aborted.get(k, 0) + v
        for k, v in other.extra.items():
            self.extra[k] = self.extra.get(k, 0) + v
