"""Scenario records (JSON-able) and their Hypothesis strategy.

A scenario fixes a complete pyhms configuration: box, objective, direction, 1-3 levels with an
engine each, stop conditions, sprout mechanism, problem-wrapper stacks and options. `harness.build`
turns it into a fresh TreeConfig with observers. Everything random about a case is drawn here."""
from __future__ import annotations

import math

import numpy as np
from hypothesis import strategies as st

# ------------------------------------------------------------------------------------------------
# objective


class Objective:
    """Deterministic, finite on the box, picklable. value = sign * base((x - c) / (hi - lo))."""

    FAMILIES = ["sphere", "rastrigin", "step", "linear", "constant", "abssum", "twobasin", "offset"]

    def __init__(self, family, center, lo, hi, sign=1.0, const=1.0, weights=None):
        self.family = family
        self.center = np.asarray(center, dtype=float)
        self.lo = np.asarray(lo, dtype=float)
        self.hi = np.asarray(hi, dtype=float)
        self.sign = float(sign)
        self.const = float(const)
        self.weights = np.asarray(weights if weights is not None else np.ones(len(self.lo)), dtype=float)

    def base(self, x) -> float:
        x = np.asarray(x, dtype=float)
        u = (x - self.center) / (self.hi - self.lo)
        f = self.family
        if f == "sphere":
            return float(np.sum(u * u))
        if f == "rastrigin":
            v = 6.0 * u
            return float(np.sum(v * v + 3.0 * (1.0 - np.cos(2.0 * math.pi * v))))
        if f == "step":
            return float(np.sum(np.floor(np.abs(u) * 5.0)))
        if f == "linear":
            return float(np.sum(self.weights * (x - self.lo) / (self.hi - self.lo)))
        if f == "constant":
            return self.const
        if f == "abssum":
            return float(np.sum(np.abs(u)))
        if f == "offset":
            # large constant plus a tiny bowl: neighbouring values differ by ~1e-8 relative (tolerance-based
            # comparisons such as isclose() cannot tell them apart, exact ones can)
            return 1000.0 + self.const * float(np.sum(u * u))  # const = amplitude (1e-4 or 1e-7)
        if f == "infwall":
            # an infeasibility penalty: the worst possible value on part of the box (sign-aware through `sign`)
            return float("inf") if u[0] > 0.2 else float(np.sum(u * u))
        if f == "infpit":
            # an objective that is unbounded in the GOOD direction on part of the box (a log barrier, a bug in user code):
            # -inf for the base problem, i.e. the best possible value in either direction after the sign is applied
            return float("-inf") if u[0] < -0.3 else float(np.sum(u * u))
        if f == "nanhole":
            # undefined (NaN) on part of the box - only used where a property's domain includes such objectives (C19)
            return float("nan") if u[0] < -0.1 else float(np.sum(u * u))
        if f == "twobasin":
            w = (x - self.lo) / (self.hi - self.lo)
            a = np.sum((w - 0.25) ** 2)
            b = np.sum((w - 0.75) ** 2) + 0.01
            return float(min(a, b))
        raise ValueError(f)

    def __call__(self, x) -> float:
        v = self.base(x)
        if v != v:
            return v
        return self.sign * v if v != 0.0 else 0.0 * self.sign + 0.0  # avoid -0.0


class Remapped:
    """objective whose value at a finite set of exact points is replaced (metamorphic 'what if generation g had
    been ranked differently' runs); everywhere else it is the wrapped objective"""

    def __init__(self, inner, points, values):
        self.inner = inner
        self.table = {np.asarray(p, dtype=float).tobytes(): float(v) for p, v in zip(points, values)}
        self.sign = getattr(inner, "sign", 1.0)

    def __call__(self, x) -> float:
        v = self.table.get(np.asarray(x, dtype=float).tobytes())
        return self.inner(x) if v is None else v


def make_objective(sc: dict, sign: float | None = None):
    o = _make_objective(sc, sign)
    r = sc.get("remap")
    if r:
        return Remapped(o, r["points"], r["values"])
    return o


def _make_objective(sc: dict, sign: float | None = None) -> Objective:
    o = sc["objective"]
    box = np.array(sc["box"], dtype=float)
    s = (-1.0 if sc["maximize"] else 1.0) if sign is None else sign
    if "sign" in o and sign is None:
        s = float(o["sign"])
    return Objective(o["family"], o["center"], box[:, 0], box[:, 1], s, o.get("const", 1.0), o.get("weights"))


# ------------------------------------------------------------------------------------------------
# strategy building blocks (module level: building strategies per draw is slow)

SEA_ENGINES = ["SEA", "SEAWithCrossover", "GAStyleSEA", "SEAWithAdaptiveMutation"]
POP_ENGINES = SEA_ENGINES + ["MWEA", "DE", "SHADE"]
ROOT_ENGINES = POP_ENGINES + ["LHS", "Sobol", "Custom"]
NONROOT_EXTRA = ["CMA"]
LEAF_EXTRA = ["Local"]
ALL_ENGINES = ROOT_ENGINES + NONROOT_EXTRA + LEAF_EXTRA

LITERAL_BOXES = [(-20.0, 20.0), (-10.0, 10.0), (-0.1, 0.2), (0.3, 0.7), (0.0, 1.0), (-5.0, -1.0)]
S_BOOL = st.booleans()
S_UNIT = st.floats(0.0, 1.0, allow_nan=False)
S_SEED = st.integers(0, 2**31 - 1)
S_DIM = st.sampled_from([2, 2, 2, 3, 3, 4, 5])
S_SCALE = st.sampled_from([1e-3, 0.3, 1.0, 1.0, 40.0, 1e6])
S_WIDTH = st.sampled_from([0.5, 1.0, 1.0, 1.7, 4.0])
S_OFFSET = st.sampled_from([-0.5, -0.5, -1.0, 0.0, 0.37, -0.1, 1000.0, 1e6])  # 1e6: box [1e6 w, (1e6+1) w] - all genomes agree to 1e-6 relative
S_LITBOX = st.sampled_from(LITERAL_BOXES)
S_POP = st.integers(4, 12)
S_GENS = st.sampled_from([1, 1, 2, 2, 3])
S_KEL = st.integers(1, 3)
S_PMUT = st.sampled_from([1.0, 1.0, 0.5, 0.2])
S_PMUT_LOW = st.sampled_from([1.0, 0.5, 0.2, 0.05, 0.0])
S_PCROSS = st.sampled_from([0.0, 0.7, 1.0])
S_STDFRAC = st.sampled_from([0.02, 0.05, 0.1, 0.2, 0.3])
S_SAMPLEFRAC = st.sampled_from([0.01, 0.05, 0.1, 0.2, 0.3])
S_DE_SCALING = st.sampled_from([0.5, 0.8, 1.5])
S_DE_CROSS = st.sampled_from([0.1, 0.9, 1.0])
S_MEM = st.sampled_from([2, 5])
S_STEPFRAC = st.sampled_from([0.01, 0.05])
S_CAP = st.integers(6, 12)
S_SMALL = st.integers(1, 5)
S_TAPE = st.lists(S_BOOL, min_size=0, max_size=24)


def _min_side(box) -> float:
    return min(hi - lo for lo, hi in box)


@st.composite
def boxes(draw, dim: int):
    if draw(st.integers(0, 3)) == 0:
        b = draw(S_LITBOX)
        return [list(b) for _ in range(dim)]
    s = draw(S_SCALE)
    out = []
    for _ in range(dim):
        w = s * draw(S_WIDTH)
        lo = draw(S_OFFSET) * w
        hi = lo + w
        if not lo < hi:  # width lost to rounding (offset 1000 w): keep a representable box
            hi = float(np.nextafter(lo, math.inf))
            hi = lo + max(hi - lo, abs(lo) * 1e-9)
        out.append([lo, hi])
    return out


@st.composite
def objectives(draw, box, families):
    fam = draw(st.sampled_from(families))
    center = []
    for lo, hi in box:
        t = draw(st.sampled_from([0.5, 0.25, 0.8, 0.0, 1.0, 0.37]))
        center.append(min(max(lo + t * (hi - lo), lo), hi))
    o = {"family": fam, "center": center}
    if fam == "constant":
        o["const"] = draw(st.sampled_from([0.0, 1.0, -2.5]))
    if fam == "offset":
        o["const"] = draw(st.sampled_from([1e-4, 1e-7]))  # neighbouring values agree to ~1e-8 / ~1e-11 relative
    if fam == "linear":
        o["weights"] = [draw(st.sampled_from([1.0, -1.0, 0.5])) for _ in box]
    return o


@st.composite
def lscs(draw, kinds):
    k = draw(st.sampled_from(kinds))
    if k == "MetaepochLimit":
        return {"kind": k, "limit": draw(S_SMALL)}
    if k == "FitnessSteadiness":
        return {"kind": k, "max_deviation": draw(st.sampled_from([1e-3, 0.05, 1.0, 1e9])), "n_metaepochs": draw(st.integers(1, 3))}
    if k == "Scripted":
        return {"kind": k, "tape": draw(S_TAPE)}
    return {"kind": k}


DEFAULT_LSC_KINDS = ["DontStop", "DontStop", "MetaepochLimit", "MetaepochLimit", "FitnessSteadiness", "AllChildrenStopped", "DontRun", "Scripted", "Scripted"]


@st.composite
def level_cfgs(draw, idx: int, nlevels: int, prof: dict):
    is_root = idx == 0
    is_leaf = idx == nlevels - 1
    engines = list(prof.get("engines", ROOT_ENGINES))
    pool = [e for e in engines if e in ROOT_ENGINES]
    if not is_root:
        pool = pool + [e for e in prof.get("engines", ALL_ENGINES) if e in NONROOT_EXTRA] * prof.get("cma_weight", 3)
        if is_leaf:
            pool = pool + [e for e in prof.get("engines", ALL_ENGINES) if e in LEAF_EXTRA] * prof.get("local_weight", 2)
    if is_root and prof.get("root_engines"):
        pool = list(prof["root_engines"])
    if not pool:
        pool = ["SEA"]
    eng = draw(st.sampled_from(pool))
    gens = draw(S_GENS)
    gens = max(gens, prof.get("min_generations", 1))
    lv = {"engine": eng, "generations": gens}
    lv["pop_size"] = draw(S_POP)
    if prof.get("small_pops") and (eng in SEA_ENGINES or eng in ("LHS", "Sobol", "Custom")) and draw(st.integers(0, 3)) == 0:
        lv["pop_size"] = draw(st.integers(1, 3))  # legal for the SEA family and the samplers (DE/SHADE need 4, MWEA its group)
    lv["sample_std_frac"] = draw(S_SAMPLEFRAC)
    if prof.get("wide_sampling") and draw(st.integers(0, 3)) == 0:
        lv["sample_std_frac"] = 1.0  # a child population sampled as wide as the narrowest side: most proposals are rejected
    if eng in SEA_ENGINES or eng == "MWEA":
        lv["k_elites"] = draw(S_KEL)
        lv["p_mutation"] = draw(S_PMUT_LOW if prof.get("pmut_low") else S_PMUT)
        lv["mutation_std_frac"] = draw(S_STDFRAC)
        if eng in ("SEAWithCrossover", "GAStyleSEA"):
            lv["p_crossover"] = draw(S_PCROSS)
        if eng == "SEAWithAdaptiveMutation":
            lv["mutation_std_step_frac"] = draw(S_STEPFRAC)
        if eng == "MWEA":
            lv["election_group_size"] = draw(st.integers(max(2, lv["k_elites"]), lv["pop_size"]))
    elif eng == "DE":
        lv["dither"] = draw(S_BOOL)
        lv["scaling"] = draw(S_DE_SCALING)
        lv["crossover"] = draw(S_DE_CROSS)
    elif eng == "SHADE":
        lv["memory_size"] = draw(S_MEM)
    elif eng == "CMA":
        lv["cma_mode"] = draw(st.sampled_from(["sigma0", "sigma0", "warm", "set_stds", "set_stds_sigma"]))
        lv["sigma0_frac"] = draw(st.sampled_from([0.02, 0.1, 0.3]))
    elif eng == "Local":
        lv["maxiter"] = draw(st.sampled_from([None, None, 1, 3, 10]))
    kinds = prof.get("lsc_kinds", DEFAULT_LSC_KINDS)
    if is_root and prof.get("root_lsc_kinds"):
        kinds = prof["root_lsc_kinds"]
    lv["lsc"] = draw(lscs(kinds))
    lv["wrappers"] = draw(st.lists(st.sampled_from(["count", "stats", "count", "precision", "cutoff"]), max_size=prof.get("max_wrappers", 2)))
    return lv


DEFAULT_GSC_KINDS = (
    ["MetaepochLimit"] * 4
    + ["SingularProblemEvalLimitReached"] * 4
    + ["FitnessEvalLimitReached"] * 4
    + ["SingularProblemPrecisionReached"] * 2
    + ["RootStopped"] * 2
    + ["AllStopped"] * 2
    + ["NoActiveNonrootDemes"] * 2
    + ["DontRun"]
)


@st.composite
def gscs(draw, kinds, nlevels, approx_evals_per_metaepoch: int):
    k = draw(st.sampled_from(kinds))
    g = {"kind": k}
    if k == "MetaepochLimit":
        g["limit"] = draw(st.sampled_from([1, 2, 3, 4, 4, 5, 5, 6, 6, 8]))
    elif k in ("SingularProblemEvalLimitReached", "FitnessEvalLimitReached"):
        a = max(2, approx_evals_per_metaepoch)
        g["limit"] = draw(st.one_of(st.integers(1, a), st.integers(a, 4 * a), st.integers(2 * a, 12 * a), st.integers(4 * a, 20 * a)))
        if k == "FitnessEvalLimitReached":
            w = draw(st.sampled_from(["equal", "root", "none", "explicit", "default"]))
            g["weights"] = w
            if w == "explicit":
                g["weight_list"] = [draw(st.sampled_from([0.0, 0.5, 1.0, 2.0])) for _ in range(nlevels)]
    elif k == "SingularProblemPrecisionReached":
        g["precision"] = draw(st.sampled_from([1e-9, 1e-3, 0.05, 0.5]))
    elif k == "NoActiveNonrootDemes":
        g["n_metaepochs"] = draw(st.integers(0, 3))
    return g


@st.composite
def sprouts(draw, box, nlevels, prof):
    kinds = prof.get("sprout_kinds", ["simple", "nbc", "composed", "composed"])
    k = draw(st.sampled_from(kinds))
    ms = _min_side(box)
    ll_max = prof.get("level_limit_max", 4)
    sprouty = bool(prof.get("sprouty"))
    s = {"kind": k, "level_limit": draw(st.integers(prof.get("level_limit_min", 1), ll_max))}
    if k == "simple":
        s["far_enough_frac"] = draw(st.sampled_from([0.0, 0.0, 0.01, 0.05] if sprouty else [0.0, 0.0, 0.01, 0.05, 0.1, 0.1, 0.3, 1.0]))
    elif k == "nbc":
        s["gen_dist_factor"] = draw(st.sampled_from([0.3, 0.5, 1.0] if sprouty else [0.5, 1.0, 1.0, 2.0, 3.0]))
        s["trunc_factor"] = draw(st.sampled_from([0.5, 0.7, 1.0]))
        s["fil_dist_factor"] = draw(st.sampled_from([0.0, 0.0, 0.5] if sprouty else [0.0, 0.5, 1.0, 3.0]))
    else:
        gens = prof.get("generators", ["BestPerDeme", "NBC", "NBCLocal", "Scripted", "Scripted"])
        gk = draw(st.sampled_from(gens))
        if gk == "NBCLocal" and nlevels < 2:
            gk = "NBC"  # the local-method generator reads tree.levels[-2]: needs two levels
        s["generator"] = {"kind": gk}
        if gk in ("NBC", "NBCLocal"):
            s["generator"]["distance_factor"] = draw(st.sampled_from([0.3, 0.5, 1.0, 2.0]))
            s["generator"]["truncation_factor"] = draw(st.sampled_from([0.5, 0.7, 1.0]))
        if gk == "Queue":
            s["generator"]["nbc_mean_distance_frac"] = draw(st.sampled_from([0.0, 0.01, 0.1]))
        if gk == "Scripted":
            # tape of proposals: per call (per active non-leaf deme per round) how many members, and which
            s["generator"]["tape"] = draw(st.lists(st.lists(st.integers(0, 11), max_size=4), max_size=16))
            s["generator"]["default_k"] = draw(st.sampled_from([1, 2, 2, 3] if sprouty else [0, 1, 1, 2, 2, 3]))
            s["generator"]["nbc_mean_distance_frac"] = draw(st.sampled_from([0.0, 0.01, 0.1]))
        dfs = []
        for name in draw(st.permutations(["FarEnough", "NBC_FarEnough", "DemeLimit"])):
            if draw(S_BOOL):
                if name == "FarEnough":
                    dfs.append({"kind": name, "min_distance_frac": draw(st.sampled_from([0.0, 0.0, 0.01] if sprouty else [0.0, 0.01, 0.1, 0.5])), "norm_ord": draw(st.sampled_from([1, 2, "inf"]))})
                elif name == "NBC_FarEnough":
                    dfs.append({"kind": name, "factor": draw(st.sampled_from([0.0, 0.0, 0.5] if sprouty else [0.0, 0.5, 1.0, 3.0])), "norm_ord": draw(st.sampled_from([1, 2, "inf"])), "check_only_active": draw(S_BOOL)})
                else:
                    dfs.append({"kind": name, "limit": draw(st.integers(1, 3))})
        if prof.get("force_far") and not any(f["kind"] in ("FarEnough", "NBC_FarEnough") for f in dfs):
            if gk in ("NBC", "NBCLocal") and draw(S_BOOL):
                dfs.insert(0, {"kind": "NBC_FarEnough", "factor": draw(st.sampled_from([0.5, 1.0, 3.0])), "norm_ord": draw(st.sampled_from([1, 2, "inf"])), "check_only_active": draw(S_BOOL)})
            else:
                dfs.insert(0, {"kind": "FarEnough", "min_distance_frac": draw(st.sampled_from([0.01, 0.1, 0.3])), "norm_ord": draw(st.sampled_from([1, 2, "inf"]))})
        if prof.get("mahalanobis") and draw(st.integers(0, 2)) == 0:
            # the fourth shipped deme-level filter: rejects candidates inside the Mahalanobis ball of a CMA-ES sibling
            dfs.insert(draw(st.integers(0, len(dfs))), {"kind": "MahalanobisFarEnough", "percentile": draw(st.sampled_from([0.5, 0.9, 0.99]))})
        s["deme_filters"] = dfs
        tfs = []
        for name in draw(st.permutations(["LevelLimit", "SkipSameSprout"])):
            if name == "LevelLimit" and (prof.get("force_level_limit") or draw(st.integers(0, 4)) > 0):
                tfs.append({"kind": "LevelLimit", "limit": s["level_limit"]})
            elif name == "SkipSameSprout" and draw(S_BOOL):
                tfs.append({"kind": "SkipSameSprout"})
        s["tree_filters"] = tfs
    return s


@st.composite
def scenarios(draw, prof: dict | None = None):
    prof = prof or {}
    dim = draw(S_DIM)
    box = draw(boxes(dim))
    families = prof.get("families", Objective.FAMILIES)
    sc = {"dim": dim, "box": box}
    sc["objective"] = draw(objectives(box, families))
    mx = prof.get("maximize")
    sc["maximize"] = draw(S_BOOL) if mx is None else mx
    lmin, lmax = prof.get("levels", (1, 3))
    nlevels = draw(st.sampled_from([n for n in [1, 2, 2, 2, 3, 3, 3] if lmin <= n <= lmax]))
    sc["levels"] = [draw(level_cfgs(i, nlevels, prof)) for i in range(nlevels)]
    sc["shared_problem"] = draw(S_BOOL) if prof.get("shared_problem") is None else prof["shared_problem"]
    if sc["shared_problem"]:
        for lv in sc["levels"][1:]:
            lv["wrappers"] = []  # one stack for all levels (that of level 0)
    approx = sum(lv["pop_size"] * lv["generations"] for lv in sc["levels"])
    sc["gsc"] = draw(gscs(prof.get("gsc_kinds", DEFAULT_GSC_KINDS), nlevels, approx))
    if sc["gsc"]["kind"] == "SingularProblemPrecisionReached":
        sc["shared_problem"] = True
        for lv in sc["levels"][1:]:
            lv["wrappers"] = []
        if "precision" not in sc["levels"][0]["wrappers"]:
            sc["levels"][0]["wrappers"] = sc["levels"][0]["wrappers"][:1] + ["precision"]
    sc["cap"] = draw(S_CAP) if "cap" not in prof else draw(st.integers(*prof["cap"]))
    sc["sprout"] = draw(sprouts(box, nlevels, prof))
    # nearest-better clustering needs at least two individuals after truncation: tiny populations only where nothing clusters them
    sp = sc["sprout"]
    uses_nbc = sp["kind"] == "nbc" or (sp["kind"] == "composed" and sp["generator"]["kind"] in ("NBC", "NBCLocal"))
    if uses_nbc:
        for lv in sc["levels"][:-1]:
            if lv["pop_size"] < 4:
                lv["pop_size"] = 4
    hp = prof.get("hibernation")
    sc["options"] = {"random_seed": draw(S_SEED), "hibernation": (draw(S_BOOL) if hp is None else (draw(st.integers(0, 9)) < hp * 10))}
    sc["cutoff"] = draw(st.integers(1, max(2, 6 * approx)))
    sc["precision_eps"] = draw(st.sampled_from([1e-9, 1e-3, 0.05, 0.5]))
    if prof.get("second_run"):
        sc["second_run_seed"] = draw(st.one_of(st.none(), S_SEED, S_SEED))
    if prof.get("observe_intermittently"):
        sc["gsc_reads_best"] = draw(st.sampled_from([False, False, True]))
        sc["observe_every"] = draw(st.sampled_from([1, 1, 2, 3]))
        sc["observe_offset"] = draw(st.integers(0, 2))
    # one run in five goes through the one-call entry point pyhms.hms.hms(levels, gsc, sprout, options) (whole runs only)
    sc["entry"] = draw(st.sampled_from(["tree", "tree", "tree", "tree", "hms"]))
    if prof.get("allow_cache"):
        # FunctionProblem(use_cache=True): a genome seen before is answered from the cache (opt-in feature of pyhms)
        sc["use_cache"] = draw(st.sampled_from([False, False, True]))
    if prof.get("extra") is not None:
        sc["extra"] = draw(prof["extra"])
    return sc


def scenario_summary(sc: dict) -> dict:
    """compact form for evidence samples"""
    return {
        "dim": sc["dim"],
        "box": sc["box"],
        "objective": sc["objective"]["family"],
        "maximize": sc["maximize"],
        "levels": [
            {k: v for k, v in lv.items() if k in ("engine", "pop_size", "generations", "lsc", "wrappers", "cma_mode")}
            for lv in sc["levels"]
        ],
        "gsc": sc["gsc"],
        "cap": sc["cap"],
        "sprout": {k: (v if k != "generator" else v.get("kind")) for k, v in sc["sprout"].items()},
        "options": sc["options"],
        "shared_problem": sc.get("shared_problem"),
        "use_cache": bool(sc.get("use_cache")),
    }
