"""Canonical digest of a DemeTree: structure + every genome and fitness + flags + counters.
Individual UUIDs, loggers and timing statistics are excluded (no property speaks about them)."""
from __future__ import annotations

import hashlib

import numpy as np


def _f(x) -> bytes:
    return np.float64(x).tobytes()


def deme_record(d, negate: bool = False) -> dict:
    """JSON-able record of one deme (used for diffs in failure messages)"""
    return {
        "id": d.id,
        "level": d.level,
        "type": type(d).__name__,
        "started_at": d.started_at,
        "children": [c.id for c in d.children],
        "active": bool(d.is_active),
        "hibernating": bool(d._hibernating),
        "n_evaluations": int(d.n_evaluations),
        "history_shape": [[len(g) for g in m] for m in d._history],
    }


def tree_digest(tree, negate_fitness: bool = False, with_counters: bool = True) -> str:
    h = hashlib.sha256()
    h.update(str(tree.metaepoch_count).encode())
    h.update(str(len(tree.levels)).encode())
    sgn = -1.0 if negate_fitness else 1.0
    for lvl, demes in enumerate(tree.levels):
        h.update(b"L%d:%d" % (lvl, len(demes)))
        for d in demes:
            h.update(f"|{d.id}|{d.level}|{type(d).__name__}|{d.started_at}|".encode())
            h.update(",".join(c.id for c in d.children).encode())
            h.update(b"A" if d.is_active else b"a")
            h.update(b"H" if d._hibernating else b"h")
            try:  # public accessor (deme's own clock since its last sprout); part of what a restored tree must reproduce
                h.update(b"S%d" % int(d.iterations_count_since_last_sprout))
            except Exception:  # noqa: BLE001
                h.update(b"S!")
            if with_counters:
                h.update(str(int(d.n_evaluations)).encode())
            s = d._sprout_seed
            if s is not None:
                h.update(np.asarray(s.genome, dtype=float).tobytes())
            for m in d._history:
                h.update(b"M")
                for g in m:
                    h.update(b"G")
                    for ind in g:
                        h.update(np.asarray(ind.genome, dtype=float).tobytes())
                        v = float(ind.fitness)
                        h.update(_f((sgn * v + 0.0) if v == v else v))  # +0.0: -0.0 and 0.0 are the same value
    return h.hexdigest()


def tree_diff(t1, t2, negate_second: bool = False) -> str:
    """first difference between two trees, for messages"""
    if t1.metaepoch_count != t2.metaepoch_count:
        return f"metaepoch_count {t1.metaepoch_count} vs {t2.metaepoch_count}"
    for lvl, (a, b) in enumerate(zip(t1.levels, t2.levels)):
        if len(a) != len(b):
            return f"level {lvl}: {len(a)} vs {len(b)} demes ({[d.id for d in a]} vs {[d.id for d in b]})"
        for d1, d2 in zip(a, b):
            r1, r2 = deme_record(d1), deme_record(d2)
            if r1 != r2:
                ks = [k for k in r1 if r1[k] != r2[k]]
                return f"deme {d1.id}/{d2.id} differs in {ks}: " + ", ".join(f"{k}: {r1[k]} vs {r2[k]}" for k in ks)
            s1, s2 = d1._sprout_seed, d2._sprout_seed
            if (s1 is None) != (s2 is None) or (s1 is not None and not np.array_equal(s1.genome, s2.genome)):
                return f"deme {d1.id}: sprout seeds differ"
            sgn = -1.0 if negate_second else 1.0
            for mi, (m1, m2) in enumerate(zip(d1._history, d2._history)):
                for gi, (g1, g2) in enumerate(zip(m1, m2)):
                    for ii, (i1, i2) in enumerate(zip(g1, g2)):
                        if not np.array_equal(np.asarray(i1.genome), np.asarray(i2.genome)):
                            return f"deme {d1.id} history[{mi}][{gi}][{ii}]: genomes {i1.genome} vs {i2.genome}"
                        f1, f2 = float(i1.fitness), sgn * float(i2.fitness)
                        if f1 != f2 and not (f1 != f1 and f2 != f2):
                            return f"deme {d1.id} history[{mi}][{gi}][{ii}]: fitness {f1!r} vs {f2!r}"
    return "no structural difference found (digest differs in counters/flags)"
