"""Invariant monitors (one per run-based property). Each is fed by harness.Run at every
GSC consultation, sprouting round, metaepoch boundary and at the end of the run."""
from __future__ import annotations

import hashlib
import math

import numpy as np

from pyhms.core.problem import EvalCutoffProblem

from .harness import CEN_ACTIVE, CEN_HIB, CEN_LEVEL, CEN_NEVALS, CEN_NGENS, CEN_NHIST, ENGINE_DEME_CLASS, Checker, census, configured_level_limit
from .scenario import POP_ENGINES, SEA_ENGINES, make_objective

# ------------------------------------------------------------------------------------------------
# helpers


def gen_digest(generation) -> bytes:
    h = hashlib.blake2b(digest_size=12)
    for ind in generation:
        h.update(np.asarray(ind.genome, dtype=float).tobytes())
        h.update(np.float64(ind.fitness).tobytes())
    h.update(len(generation).to_bytes(4, "little"))
    return h.digest()


def history_digest(deme) -> bytes:
    h = hashlib.blake2b(digest_size=12)
    for m in deme._history:
        h.update(b"M")
        for g in m:
            h.update(gen_digest(g))
    return h.digest()


def cutoff_exhausted(run, level: int) -> bool:
    for ly in run.level_layers[level]:
        if isinstance(ly, EvalCutoffProblem) and ly.n_evaluations >= int(run.sc["cutoff"]):
            return True
    return False


def has_cutoff(run, level: int) -> bool:
    return any(isinstance(ly, EvalCutoffProblem) for ly in run.level_layers[level])


def better(problem, a: float, b: float) -> bool:
    """a strictly better than b in the problem's own direction"""
    return bool(problem.worse_than(b, a))


def call_level(run, c) -> int | None:
    """level a call belongs to: the per-level problem's tag, or (shared problem) the calling deme's level"""
    if isinstance(c.tag, int):
        return c.tag
    return c.level


def fmt(x) -> str:
    return np.array2string(np.asarray(x), precision=17, separator=",", max_line_width=10**6)


# ------------------------------------------------------------------------------------------------
# C01


class C01Checker(Checker):
    prop = "C01"

    def __init__(self, sc):
        super().__init__()
        box = np.array(sc["box"], dtype=float)
        self.lo, self.hi = box[:, 0], box[:, 1]
        self.n_seen = 0
        self.gens_seen: dict[str, int] = {}
        self.near_face = 0
        self.on_face = 0
        self.eps = 1e-9 * (self.hi - self.lo)

    def _inside(self, x) -> bool:
        x = np.asarray(x, dtype=float)
        return bool(np.all(x >= self.lo) and np.all(x <= self.hi))

    def _scan_calls(self, run):
        calls = run.trace.calls
        for c in calls[self.n_seen:]:
            if not self._inside(c.x):
                j = int(np.argmax((c.x < self.lo) | (c.x > self.hi)))
                self.fail(
                    f"evaluated-outside/{c.fn}",
                    f"objective invoked at x={fmt(c.x)} outside box coordinate {j} [{self.lo[j]!r},{self.hi[j]!r}] by deme {c.deme} (level {c.level}, in {c.fn})",
                    x=c.x, deme=c.deme,
                )
            d = np.minimum(np.abs(c.x - self.lo), np.abs(c.x - self.hi))
            if np.any(d <= self.eps):
                self.near_face += 1
                if np.any(d == 0):
                    self.on_face += 1
        self.n_seen = len(calls)

    def on_gsc(self, run, e):
        self._scan_calls(run)

    def on_round(self, run, rnd):
        for pid, seeds in rnd["seeds"].items():
            for g, f, _ in seeds:
                if not self._inside(g):
                    self.fail("seed-outside", f"sprout seed {fmt(g)} of parent {pid} outside the box")

    def _scan_history(self, run):
        for _, d in run.tree.all_demes:
            flat = d.history
            start = self.gens_seen.get(d.id, 0)
            for gi in range(start, len(flat)):
                for ind in flat[gi]:
                    if not self._inside(ind.genome):
                        self.fail(
                            f"stored-outside/{type(d).__name__}",
                            f"genome {fmt(ind.genome)} stored in history of {type(d).__name__} {d.id} (generation {gi}) outside the box",
                        )
            self.gens_seen[d.id] = len(flat)
            s = d._sprout_seed
            if s is not None and not self._inside(s.genome):
                self.fail("seed-outside", f"sprout seed {fmt(s.genome)} of deme {d.id} outside the box")

    def on_boundary(self, run, k):
        self._scan_calls(run)
        self._scan_history(run)

    def on_end(self, run):
        if run.tree is None:
            return
        self._scan_calls(run)
        self._scan_history(run)


# ------------------------------------------------------------------------------------------------
# C02


class C02Checker(Checker):
    prop = "C02"

    def __init__(self, sc):
        super().__init__()
        self.pure = make_objective(sc)
        self.worst = -math.inf if sc["maximize"] else math.inf
        self.digests: dict[tuple, bytes] = {}
        self.carried = 0  # individuals carried over unchanged between consecutive generations
        self.sentinels = 0
        self.local_iters = 0
        self.n_checked = 0

    def _check_ind(self, run, d, ind, where: str, level: int | None = None):
        f = ind.fitness
        level = d.level if level is None else level
        self.n_checked += 1
        if f is None or (isinstance(f, float) and math.isnan(f)) or (not isinstance(f, float) and np.isnan(f)):
            self.fail(f"unevaluated-stored/{type(d).__name__}", f"individual without fitness stored in {where}")
            return
        truth = self.pure(np.array(ind.genome, dtype=float, copy=True))
        if f == truth:
            return
        if f == self.worst and cutoff_exhausted(run, level):
            self.sentinels += 1
            return
        self.fail(
            f"genome-fitness-mismatch/{type(d).__name__}",
            f"{where}: stored fitness {f!r} but objective({fmt(ind.genome)}) = {truth!r}",
            deme=d.id,
        )

    def _scan(self, run, final=False):
        tree = run.tree
        for _, d in tree.all_demes:
            for mi, m in enumerate(d._history):
                for gi, g in enumerate(m):
                    key = (d.id, mi, gi)
                    dg = gen_digest(g)
                    old = self.digests.get(key)
                    if old is None:
                        self.digests[key] = dg
                        # a local deme's initial "population" is its seed, an individual of the parent
                        lvl = max(0, d.level - 1) if (type(d).__name__ == "LocalDeme" and mi == 0) else d.level
                        for ind in g:
                            self._check_ind(run, d, ind, f"{type(d).__name__} {d.id} history[{mi}][{gi}]", level=lvl)
                        if type(d).__name__ == "LocalDeme" and mi >= 1:
                            self.local_iters = max(self.local_iters, len(g))
                    elif old != dg:
                        self.fail(
                            f"history-mutated/{type(d).__name__}",
                            f"generation history[{mi}][{gi}] of {type(d).__name__} {d.id} changed after it was recorded (metaepoch {tree.metaepoch_count})",
                            deme=d.id,
                        )
            s = d._sprout_seed
            if s is not None:
                # the seed is an individual of the parent: it was evaluated through the parent level's problem
                self._check_ind(run, d, s, f"sprout seed of {type(d).__name__} {d.id}", level=max(0, d.level - 1))
        b = tree.best_individual
        if b is not None:
            self._check_ind(run, tree.root, b, "tree.best_individual")

    def on_boundary(self, run, k):
        self._scan(run)

    def on_end(self, run):
        if run.tree is None:
            return
        self._scan(run, final=True)
        # non-triviality: carried-over individuals
        for _, d in run.tree.all_demes:
            flat = d.history
            for a, b in zip(flat, flat[1:]):
                prev = {(np.asarray(i.genome).tobytes(), float(i.fitness)) for i in a}
                self.carried += sum(1 for i in b if (np.asarray(i.genome).tobytes(), float(i.fitness)) in prev)


# ------------------------------------------------------------------------------------------------
# C03


class C03Checker(Checker):
    prop = "C03"

    def __init__(self, sc):
        super().__init__()
        self.n_seen = 0
        self.per_level: dict = {}
        self.checked_points = 0
        self.after_refusal_points = 0

    def _update(self, run):
        calls = run.trace.calls
        for c in calls[self.n_seen:]:
            lv = call_level(run, c)
            self.per_level[lv] = self.per_level.get(lv, 0) + 1
        self.n_seen = len(calls)

    def _check(self, run, cen: dict, tree_nevals: int, where: str):
        self._update(run)
        n_calls = self.n_seen
        cached = bool(run.sc.get("use_cache"))
        nlev = len(run.sc["levels"])
        deme_sum = sum(c[CEN_NEVALS] for c in cen.values())
        if tree_nevals != deme_sum:
            self.fail("tree-total-vs-deme-sum", f"{where}: tree.n_evaluations={tree_nevals} but sum over demes={deme_sum}")
        exhausted = [cutoff_exhausted(run, lv) for lv in range(nlev)]
        # hard budget: never more than N invocations behind a cutoff wrapper
        N = int(run.sc["cutoff"])
        if run.sc.get("shared_problem"):
            if has_cutoff(run, 0) and n_calls > N:
                self.fail("cutoff-exceeded", f"{where}: objective invoked {n_calls} times behind EvalCutoffProblem(N={N})")
        else:
            for lv in range(nlev):
                if has_cutoff(run, lv) and self.per_level.get(lv, 0) > N:
                    self.fail("cutoff-exceeded", f"{where}: level {lv} objective invoked {self.per_level.get(lv, 0)} times behind EvalCutoffProblem(N={N})")
        if any(exhausted):
            self.after_refusal_points += 1
        if not any(exhausted):
            self.checked_points += 1
            # (with the opt-in cache of FunctionProblem a repeated genome is counted but not re-evaluated)
            if (deme_sum < n_calls) if cached else (deme_sum != n_calls):
                self.fail(
                    "total-vs-calls",
                    f"{where}: demes report {deme_sum} evaluations but the objective was invoked {n_calls} times "
                    f"(per deme: { {k: v[CEN_NEVALS] for k, v in cen.items()} })",
                )
        for lv in range(nlev):
            if exhausted[lv] or (run.sc.get("shared_problem") and any(exhausted)):
                continue
            lvl_sum = sum(c[CEN_NEVALS] for c in cen.values() if c[CEN_LEVEL] == lv)
            lvl_calls = self.per_level.get(lv, 0)
            if (lvl_sum < lvl_calls) if cached else (lvl_sum != lvl_calls):
                self.fail(
                    "level-vs-calls",
                    f"{where}: level {lv} demes report {lvl_sum} evaluations but its objective was invoked {lvl_calls} times",
                )
        stray = self.per_level.get(None, 0)
        if stray:
            self.fail("unattributed-evaluation", f"{where}: {stray} objective invocations made outside any deme")

    def on_gsc(self, run, e):
        self._check(run, e.census, e.tree_nevals, f"GSC consultation #{e.idx} (asked by {e.asker} {e.asker_id or ''} at metaepoch {e.metaepoch})")

    def on_end(self, run):
        if run.tree is None or run.crash:
            return
        self._check(run, census(run.tree), int(run.tree.n_evaluations), "end of run")


# ------------------------------------------------------------------------------------------------
# C04


class C04Checker(Checker):
    prop = "C04"

    def __init__(self, sc):
        super().__init__()
        self.sc = sc
        self.has_local = any(lv["engine"] == "Local" for lv in sc["levels"])
        self.prev_best = None
        self.changes_after_first = 0
        self.n_seen = 0
        self.best_call = None

    def _scan_calls(self, run, problem):
        for c in run.trace.calls[self.n_seen:]:
            if self.best_call is None or better(problem, c.value, self.best_call):
                self.best_call = c.value
        self.n_seen = len(run.trace.calls)

    def on_boundary(self, run, k):
        every = int(self.sc.get("observe_every", 1))
        if every > 1 and (k % every) != int(self.sc.get("observe_offset", 0)) % every:
            return  # an observer that does not look at every boundary (memoised accessors must still be right)
        tree = run.tree
        problem = run.level_problems[0]
        tb = tree.best_individual
        all_inds = []
        for _, d in tree.all_demes:
            inds = d.all_individuals
            all_inds.extend(inds)
            db = d.best_individual
            if not inds:
                continue
            if db is None:
                self.fail("deme-best-missing", f"deme {d.id} has individuals but best_individual is None")
                continue
            for i in inds:
                if better(problem, i.fitness, db.fitness):
                    self.fail(f"deme-best-not-best/{type(d).__name__}", f"deme {d.id}: best_individual fitness {db.fitness!r} but history holds {i.fitness!r}")
                    break
            if not any(i.fitness == db.fitness and np.array_equal(i.genome, db.genome) for i in inds):
                self.fail(f"deme-best-not-member/{type(d).__name__}", f"deme {d.id}: best_individual is not an individual of its history")
        if tb is None:
            self.fail("tree-best-missing", "tree.best_individual is None")
            return
        for i in all_inds:
            if better(problem, i.fitness, tb.fitness):
                self.fail("tree-best-not-best", f"metaepoch {tree.metaepoch_count}: tree.best_individual fitness {tb.fitness!r} but some deme holds {i.fitness!r}")
                break
        if not any(i.fitness == tb.fitness and np.array_equal(i.genome, tb.genome) for i in all_inds):
            self.fail("tree-best-not-member", "tree.best_individual is not an individual of any history")
        if self.prev_best is not None:
            if better(problem, self.prev_best, tb.fitness):
                self.fail("best-worsened", f"best fitness went from {self.prev_best!r} to {tb.fitness!r} at metaepoch {tree.metaepoch_count}")
            if tb.fitness != self.prev_best and k >= 2:  # (k counts boundaries)
                self.changes_after_first += 1
        self.prev_best = tb.fitness
        if not self.has_local:
            self._scan_calls(run, problem)
            worst = -math.inf if self.sc["maximize"] else math.inf
            if self.best_call is not None and tb.fitness != self.best_call and tb.fitness != worst:
                self.fail(
                    "best-not-best-observed",
                    f"metaepoch {tree.metaepoch_count}: reported best {tb.fitness!r} but the best value the objective ever returned is {self.best_call!r}",
                )


# ------------------------------------------------------------------------------------------------
# C05


def _gen_bound(d) -> int:
    """upper bound on the evaluations of one engine iteration of deme d"""
    name = type(d).__name__
    if name == "CMADeme":
        return int(d._cma_es.popsize)
    return int(getattr(d, "_pop_size", 0) or getattr(d.config, "pop_size", 0))


class C05Checker(Checker):
    prop = "C05"

    def __init__(self, sc):
        super().__init__()
        self.sc = sc
        self.mid = False
        self.others_pending = False

    def on_end(self, run):
        tr, tree = run.trace, run.tree
        if tree is None or run.crash:
            return
        tl = tr.timeline
        i0 = tr.first_true
        if i0 is None:
            self.fail("returned-without-gsc", "run() returned although the global stop condition never evaluated to true")
            return
        e0 = tl[i0]
        final_m = tree.metaepoch_count
        # metaepochs performed when the condition was first seen true = loop-head consultations answered "go on" until then
        # (counted here, not read from the tree's counter: what the counter shows in the middle of a metaepoch is not specified)
        performed = sum(1 for e in tl[:i0] if e.asker == "head" and not e.verdict)
        if final_m != performed:
            self.fail(
                "ran-past-gsc",
                f"GSC first true at consultation #{i0} during/after metaepoch {performed} (asked by {e0.asker} {e0.asker_id or ''}) but run() returned with metaepoch_count={final_m}",
            )
        heads = [e for e in tl if e.asker == "head"]
        false_heads = sum(1 for e in heads if not e.verdict)
        if false_heads != final_m:
            self.fail("metaepoch-count-vs-steps", f"{false_heads} whole metaepochs were started but metaepoch_count={final_m}")
        # run() returns at a boundary at which the condition was seen true: the last consultation is a true one made by the
        # tree itself between metaepochs (at the loop head, or right after the metaepoch - a loop may reuse that verdict)
        if not tl or not tl[-1].verdict or tl[-1].asker not in ("head", "post"):
            self.fail("no-final-boundary-check", "run() did not return from a consultation between metaepochs that was true")
        g = self.sc["gsc"]
        cap = int(self.sc["cap"])
        if g["kind"] == "MetaepochLimit":
            n = int(g["limit"])
            # exactly n - unless the harness' own cap (metaepochs or tree size) ended the run first
            if (e0.real and final_m != n) or final_m > n:
                self.fail("metaepoch-limit-not-exact", f"MetaepochLimit({n}) (cap {cap}) but {final_m} metaepochs were performed")
        if g["kind"] == "DontRun" and (final_m != 0 or len(tree.all_demes) != 1):
            self.fail("dontrun-ran", f"DontRun but metaepoch_count={final_m}, demes={len(tree.all_demes)}")
        late_rounds = [r for r in tr.rounds if r["gsc_idx"] > i0]
        if late_rounds:
            self.fail("sprout-after-gsc", f"a sprouting round ran at metaepoch {late_rounds[0]['metaepoch']} after the GSC was first true (consultation #{i0})")
        final_cen = census(tree)
        if set(final_cen) != set(e0.census):
            self.fail("deme-set-changed-after-gsc", f"demes at return {sorted(final_cen)} != demes when GSC first true {sorted(e0.census)}")
        # wind-down bound
        asks_after = {}
        for e in tl[i0 + 1:]:
            if not e.verdict:
                self.fail("gsc-not-monotone", f"consultation #{e.idx} returned false after #{i0} returned true (shipped conditions are monotone during wind-down)")
            if e.asker == "deme":
                asks_after[e.asker_id] = asks_after.get(e.asker_id, 0) + 1
        demes = {d.id: d for _, d in tree.all_demes}
        for did, n in asks_after.items():
            if n > 1:
                self.fail(f"deme-ran-on-after-gsc/{type(demes[did]).__name__}", f"deme {did} consulted the GSC {n} times after it was first true (at most one further engine iteration allowed)")
        for did, c0 in e0.census.items():
            c1 = final_cen.get(did)
            if c1 is None:
                continue
            d = demes[did]
            dgens = c1[CEN_NGENS] - c0[CEN_NGENS]
            devals = c1[CEN_NEVALS] - c0[CEN_NEVALS]
            name = type(d).__name__
            # the asker's generations of the running metaepoch enter the history only after its consultation returns
            allowed_gens = 1
            if did == e0.asker_id and e0.asker == "deme":
                last_head = max((j for j in range(i0) if tl[j].asker == "head"), default=-1)
                allowed_gens = sum(1 for e in tl[last_head + 1 : i0 + 1] if e.asker == "deme" and e.asker_id == did)
            if dgens > allowed_gens:
                self.fail(f"wind-down-generations/{name}", f"deme {did} recorded {dgens} generations after the GSC was first true")
            if name != "LocalDeme":
                bound = _gen_bound(d)
                if did == e0.asker_id:
                    bound = 0
                if devals > bound:
                    self.fail(f"wind-down-evaluations/{name}", f"deme {did} spent {devals} evaluations after the GSC was first true (one iteration is at most {bound})")
            if c0[CEN_ACTIVE] is False and (devals or c1[CEN_NHIST] != c0[CEN_NHIST]):
                self.fail("inactive-deme-ran-in-wind-down", f"inactive deme {did} ran after the GSC was first true")
        self.mid = e0.asker == "deme"
        if self.mid:
            self.others_pending = any(e.asker == "deme" and e.asker_id != e0.asker_id for e in tl[i0 + 1:]) or any(
                type(demes[did]).__name__ == "LocalDeme" and final_cen[did][CEN_NHIST] != c0[CEN_NHIST] for did, c0 in e0.census.items() if did in final_cen
            )


# ------------------------------------------------------------------------------------------------
# C06


class C06Checker(Checker):
    prop = "C06"

    def __init__(self, sc):
        super().__init__()
        self.hib_on = bool(sc["options"].get("hibernation"))
        self.prev = None  # id -> dict
        self.prev_gsc_idx = 0
        self.prev_lsc_idx = 0
        self.prev_calls = 0
        self.stopped_by_lsc_with_active_sibling = False
        self.later_sprout_on_level_after_stop: set = set()
        self.lsc_stops_level: dict[int, int] = {}
        self.nontrivial = False
        # fresh, unobserved copies of the shipped (pure) local stop conditions: the statement says a deme stops
        # when its condition HOLDS at the end of its metaepoch, whatever the engine made of the consultation
        from .harness import build_lsc

        self.pure_lsc = {}
        for i, lv in enumerate(sc["levels"]):
            if lv["lsc"]["kind"] in ("MetaepochLimit", "FitnessSteadiness", "DontRun", "DontStop", "AllChildrenStopped"):
                self.pure_lsc[i] = (lv["lsc"]["kind"], build_lsc(lv["lsc"]))

    def _snap(self, run):
        out = {}
        for lvl, demes in enumerate(run.tree.levels):
            for d in demes:
                out[d.id] = {
                    "level": lvl,
                    "active": bool(d.is_active),
                    "hib": bool(d._hibernating),
                    "nhist": len(d._history),
                    "nevals": int(d.n_evaluations),
                    "digest": history_digest(d),
                    "started_at": d.started_at,
                    "type": type(d).__name__,
                    "deme": d,
                    "children": [ch.id for ch in d.children],
                }
        return out

    def on_boundary(self, run, k):
        tr, tree = run.trace, run.tree
        cur = self._snap(run)
        if self.prev is not None:
            step_gsc = tr.timeline[self.prev_gsc_idx:]
            step_lsc = tr.lsc_log[self.prev_lsc_idx:]
            step_calls = tr.calls[self.prev_calls:]
            callers = {}
            for c in step_calls:
                callers[c.deme] = callers.get(c.deme, 0) + 1
            for did, p in self.prev.items():
                c = cur.get(did)
                if c is None:
                    self.fail("deme-vanished", f"deme {did} disappeared from the tree at metaepoch {tree.metaepoch_count}")
                    continue
                should_run = p["active"] and not (self.hib_on and p["hib"])
                t = p["type"]
                if should_run:
                    if c["nhist"] != p["nhist"] + 1:
                        self.fail(f"active-deme-did-not-advance-by-one/{t}", f"metaepoch {tree.metaepoch_count}: active deme {did} ({t}) advanced by {c['nhist'] - p['nhist']} metaepochs")
                else:
                    why = "inactive" if not p["active"] else "hibernating"
                    if c["nhist"] != p["nhist"] or c["digest"] != p["digest"]:
                        self.fail(f"{why}-deme-history-changed/{t}", f"metaepoch {tree.metaepoch_count}: {why} deme {did} ({t}) changed its history")
                    if c["nevals"] != p["nevals"] or callers.get(did, 0):
                        self.fail(f"{why}-deme-evaluated/{t}", f"metaepoch {tree.metaepoch_count}: {why} deme {did} ({t}) evaluated the objective ({callers.get(did, 0)} calls, counter {p['nevals']}->{c['nevals']})")
                if not p["active"] and c["active"]:
                    self.fail(f"reactivated/{t}", f"metaepoch {tree.metaepoch_count}: inactive deme {did} became active again")
                # stopping reasons
                lsc_true = any(l["deme"] == did and l["verdict"] for l in step_lsc)
                gsc_true = any(e.asker == "deme" and e.asker_id == did and e.verdict for e in step_gsc)
                gsc_any = any(e.verdict for e in step_gsc)  # "the global stop condition holds": whoever noticed
                is_local = t == "LocalDeme"
                cma_stop = False
                if t == "CMADeme":
                    try:
                        cma_stop = bool(c["deme"]._cma_es.stop())
                    except Exception:  # noqa: BLE001
                        cma_stop = False
                if should_run:
                    reason = lsc_true or gsc_true or gsc_any or is_local or cma_stop
                    if p["active"] and not c["active"] and not reason:
                        self.fail(f"stopped-without-reason/{t}", f"metaepoch {tree.metaepoch_count}: deme {did} ({t}) became inactive although neither its LSC nor the GSC held and the engine did not terminate")
                    if c["active"] and (lsc_true or gsc_true or is_local or cma_stop):
                        why = "LSC" if lsc_true else "GSC" if gsc_true else "one-shot local search" if is_local else "CMA-ES stop()"
                        self.fail(f"not-stopped-despite-{'lsc' if lsc_true else 'gsc' if gsc_true else 'local' if is_local else 'cma'}/{t}", f"metaepoch {tree.metaepoch_count}: deme {did} ({t}) stayed active although {why} held at the end of its metaepoch")
                    pure = self.pure_lsc.get(c["level"])
                    if pure is not None and not gsc_any and not is_local and not cma_stop:
                        kind, cond = pure
                        try:
                            holds = bool(cond(c["deme"]))
                        except Exception:  # noqa: BLE001
                            holds = None
                        if kind == "AllChildrenStopped" and holds:
                            # a condition about OTHER demes: "at the end of its metaepoch" is not the boundary when the
                            # children run after their parent. Certain only if they had all stopped a boundary earlier.
                            kids = p.get("children") or []
                            if not (kids and all(k_ in self.prev and not self.prev[k_]["active"] for k_ in kids)):
                                holds = None
                        if holds is True and c["active"]:
                            self.fail(f"lsc-holds-but-deme-active/{t}/{kind}", f"metaepoch {tree.metaepoch_count}: {kind} holds for deme {did} ({t}) at the end of its metaepoch {c['nhist'] - 1} but the deme is still active")
                        if holds is False and not c["active"] and kind != "AllChildrenStopped":
                            self.fail(f"stopped-although-lsc-does-not-hold/{t}/{kind}", f"metaepoch {tree.metaepoch_count}: deme {did} ({t}) was stopped although {kind} does not hold at the end of its metaepoch {c['nhist'] - 1}")
                    if lsc_true and not gsc_true and not c["active"]:
                        sib_active = any(o["active"] and o["level"] == c["level"] and oid != did for oid, o in cur.items())
                        if sib_active and c["level"] >= 1:
                            self.lsc_stops_level[c["level"]] = tree.metaepoch_count
                elif p["active"] != c["active"] and not (p["active"] and gsc_any):
                    # (a tree may close its demes once the global stop condition holds, sleeping ones included)
                    self.fail(f"flag-changed-while-not-running/{t}", f"deme {did} changed its active flag in a metaepoch it did not run")
            for did, c in cur.items():
                if did in self.prev:
                    continue
                t = c["type"]
                if c["nhist"] != 1:
                    self.fail(f"new-deme-already-ran/{t}", f"deme {did} sprouted at metaepoch {tree.metaepoch_count} already has {c['nhist'] - 1} metaepochs")
                if c["started_at"] != tree.metaepoch_count:
                    self.fail("new-deme-started-at", f"deme {did} sprouted during metaepoch {tree.metaepoch_count} has started_at={c['started_at']}")
                if not c["active"]:
                    self.fail("new-deme-inactive", f"deme {did} is inactive right after sprouting")
                if c["level"] in self.lsc_stops_level and self.lsc_stops_level[c["level"]] < tree.metaepoch_count:
                    self.nontrivial = True
        self.prev = cur
        self.prev_gsc_idx = len(tr.timeline)
        self.prev_lsc_idx = len(tr.lsc_log)
        self.prev_calls = len(tr.calls)


# ------------------------------------------------------------------------------------------------
# C07


class C07Checker(Checker):
    prop = "C07"

    def __init__(self, sc):
        super().__init__()
        self.sc = sc
        self.known: set[str] = set()
        self.last_round = None
        self.n_seeds = 0
        self.nbc_local = sc["sprout"]["kind"] == "composed" and sc["sprout"]["generator"]["kind"] == "NBCLocal"

    def adopt(self, tree):
        """start monitoring a tree that already has demes (restored snapshot)"""
        for _, d in tree.all_demes:
            self.known.add(d.id)

    def on_round(self, run, rnd):
        self.last_round = rnd
        before = rnd["before"]
        for pid, seeds in rnd["seeds"].items():
            pop = before["pops"].get(pid)
            if pop is None:
                self.fail("seed-from-unknown-deme", f"sprouting round at metaepoch {rnd['metaepoch']} returned seeds for unknown deme {pid}")
                continue
            for g, f, _ in seeds:
                self.n_seeds += 1
                ok = any(np.array_equal(g, pg) and (f == pf or (f != f and pf != pf)) for pg, pf, _ in pop)
                if not ok and self.nbc_local and pid in before["finished_now"]:
                    b = before["best"].get(pid)
                    ok = b is not None and np.array_equal(g, b[0]) and f == b[1]
                    if not ok and (f != f or (b is not None and b[1] != b[1])):
                        # an objective with NaN values has no defined "best": any individual the finished deme kept will do
                        dm = next((d for _, d in run.tree.all_demes if d.id == pid), None)
                        ok = dm is not None and any(
                            np.array_equal(g, ind.genome) and (f == ind.fitness or (f != f and ind.fitness != ind.fitness))
                            for me in dm._history for gen in me for ind in gen
                        )
                if not ok:
                    self.fail("seed-not-in-parent-population", f"metaepoch {rnd['metaepoch']}: seed {fmt(g)} (fitness {f!r}) returned for parent {pid} is not an individual of its current population")

    def on_boundary(self, run, k):
        tree = run.tree
        sc = self.sc
        H = len(sc["levels"])
        if len(tree.levels) != H:
            self.fail("height", f"tree has {len(tree.levels)} levels, configured {H}")
            return
        if len(tree.levels[0]) != 1 or tree.levels[0][0].id != "root":
            self.fail("root", f"level 0 holds {[d.id for d in tree.levels[0]]}")
            return
        ids = [d.id for _, d in tree.all_demes]
        if len(ids) != len(set(ids)):
            dup = sorted({i for i in ids if ids.count(i) > 1})
            self.fail("duplicate-id", f"metaepoch {tree.metaepoch_count}: deme ids not unique: {dup}")
        parent_of: dict[int, list] = {}
        for lvl, demes in enumerate(tree.levels):
            for d in demes:
                if d.level != lvl:
                    self.fail("level-attribute", f"deme {d.id} sits in levels[{lvl}] but reports level {d.level}")
                want = ENGINE_DEME_CLASS[sc["levels"][lvl]["engine"]]
                if type(d).__name__ != want:
                    self.fail("wrong-engine-for-level", f"deme {d.id} at level {lvl} is a {type(d).__name__}, configured engine {sc['levels'][lvl]['engine']} ({want})")
                if not (0 <= d.started_at <= tree.metaepoch_count):
                    self.fail("started-at-range", f"deme {d.id}: started_at={d.started_at}, tree metaepoch {tree.metaepoch_count}")
                for ch in d.children:
                    parent_of.setdefault(id(ch), []).append(d)
                    if ch.level != lvl + 1:
                        self.fail("child-level", f"deme {d.id} (level {lvl}) lists child {ch.id} of level {ch.level}")
                    if not any(ch is x for x in (tree.levels[lvl + 1] if lvl + 1 < H else [])):
                        self.fail("child-not-registered", f"child {ch.id} of {d.id} is not registered in levels[{lvl + 1}]")
                    if ch.started_at < d.started_at:
                        self.fail("child-before-parent", f"child {ch.id} started at {ch.started_at} before its parent {d.id} ({d.started_at})")
                if lvl == H - 1 and d.children:
                    self.fail("below-last-level", f"leaf-level deme {d.id} has children")
        for lvl in range(1, H):
            for d in tree.levels[lvl]:
                ps = parent_of.get(id(d), [])
                if len(ps) != 1:
                    self.fail("parent-count", f"deme {d.id} at level {lvl} is listed as child by {len(ps)} demes")
                if d._sprout_seed is None:
                    self.fail("non-root-without-seed", f"deme {d.id} has no sprout seed")
        if parent_of.get(id(tree.root)):
            self.fail("root-has-parent", "root is listed as a child")
        # provenance of the demes created since the last boundary
        for lvl in range(1, H):
            for d in tree.levels[lvl]:
                if d.id in self.known:
                    continue
                self.known.add(d.id)
                ps = parent_of.get(id(d), [])
                rnd = self.last_round
                if not ps or rnd is None:
                    self.fail("child-without-round", f"deme {d.id} appeared without a sprouting round")
                    continue
                p = ps[0]
                seeds = rnd["seeds"].get(p.id, [])
                sg = np.asarray(d._sprout_seed.genome, dtype=float)
                if not any(np.array_equal(sg, g) for g, _, _ in seeds):
                    self.fail("child-seed-not-from-round", f"deme {d.id}: sprout seed {fmt(sg)} is not one of the seeds the mechanism returned for its parent {p.id}")
                if type(d).__name__ in ("EADeme", "DEDeme", "SHADEDeme"):
                    first = d._history[0][0]
                    if not any(np.array_equal(np.asarray(i.genome, dtype=float), sg) for i in first):
                        self.fail(f"seed-not-in-initial-population/{type(d).__name__}", f"deme {d.id}: initial population does not contain its sprout seed {fmt(sg)}")
        self.known.add("root")


# ------------------------------------------------------------------------------------------------
# C08


class C08Checker(Checker):
    prop = "C08"

    def __init__(self, sc):
        super().__init__()
        self.L = configured_level_limit(sc)
        self.binding = 0
        self.multi_parent_binding = 0
        self.pending = None

    def on_gsc(self, run, e):
        if self.L is None:
            return
        act: dict[int, int] = {}
        for did, c in e.census.items():
            if c[CEN_ACTIVE] and c[CEN_LEVEL] >= 1:
                act[c[CEN_LEVEL]] = act.get(c[CEN_LEVEL], 0) + 1
        for lvl, n in act.items():
            if n > self.L:
                self.fail("level-limit-exceeded", f"consultation #{e.idx} (metaepoch {e.metaepoch}): {n} active demes on level {lvl}, level limit {self.L}")

    def on_round(self, run, rnd):
        if self.L is None:
            return
        cen = rnd["before"]["census"]
        act: dict[int, int] = {}
        for did, c in cen.items():
            if c[CEN_ACTIVE]:
                act[c[CEN_LEVEL]] = act.get(c[CEN_LEVEL], 0) + 1
        created: dict[int, int] = {}
        parents: dict[int, int] = {}
        for pid, seeds in rnd["seeds"].items():
            tl = rnd["seed_levels"][pid] + 1
            created[tl] = created.get(tl, 0) + len(seeds)
            parents[tl] = parents.get(tl, 0) + 1
        for tl, n in created.items():
            free = self.L - act.get(tl, 0)
            if n > free:
                self.fail("round-overfills-level", f"metaepoch {rnd['metaepoch']}: sprouting round returned {n} seeds for level {tl} with {act.get(tl, 0)} active demes there, level limit {self.L}")
        self.pending = (rnd, act)

    def note_generated(self, level_counts: dict[int, int], act: dict[int, int], parents: dict[int, int]):
        for tl, n in level_counts.items():
            if n > self.L - act.get(tl, 0):
                self.binding += 1
                if parents.get(tl, 0) > 1:
                    self.multi_parent_binding += 1

    def on_filter(self, run, e):
        # measure how often the limit is binding: candidates entering LevelLimit vs free slots
        if self.L is None or e.get("chain") != "tree" or type(e["filter"]).__name__ != "LevelLimit":
            return
        counts: dict[int, int] = {}
        parents: dict[int, int] = {}
        for did, inds in e["before"].items():
            tl = e["demes"][did].level + 1
            counts[tl] = counts.get(tl, 0) + len(inds)
            if inds:
                parents[tl] = parents.get(tl, 0) + 1
        act = {i: n for i, n in enumerate(e["active"])}
        self.note_generated(counts, act, parents)

    def on_boundary(self, run, k):
        if self.L is None or self.pending is None:
            return
        rnd, act = self.pending
        self.pending = None
        before = rnd["before"]["census"]
        created: dict[int, int] = {}
        for lvl, demes in enumerate(run.tree.levels):
            for d in demes:
                if d.id not in before:
                    created[lvl] = created.get(lvl, 0) + 1
        for lvl, n in created.items():
            if n > self.L - act.get(lvl, 0):
                self.fail("round-created-too-many", f"metaepoch {rnd['metaepoch']}: {n} demes created on level {lvl} with {act.get(lvl, 0)} active there, level limit {self.L}")


# ------------------------------------------------------------------------------------------------
# C11 / C12


def _flat_generations(d):
    """[(metaepoch index, generation index within metaepoch, generation)]"""
    out = []
    for mi, m in enumerate(d._history):
        for gi, g in enumerate(m):
            out.append((mi, gi, g))
    return out


class C12Checker(Checker):
    prop = "C12"

    def __init__(self, sc):
        super().__init__()
        self.sc = sc
        self.improvements = 0
        self.pairs = 0
        self.long_demes = 0

    def on_end(self, run):
        tree = run.tree
        if tree is None:
            return
        problem = run.level_problems[0]
        for lvl, demes in enumerate(tree.levels):
            lv = self.sc["levels"][lvl]
            eng = lv["engine"]
            for d in demes:
                gens = _flat_generations(d)
                t = type(d).__name__
                # size clause
                if eng != "Local":
                    want = int(d._cma_es.popsize) if eng == "CMA" else int(lv["pop_size"])
                    for mi, gi, g in gens:
                        if len(g) != want:
                            self.fail(f"population-size/{eng}", f"deme {d.id} ({eng}) history[{mi}][{gi}] has {len(g)} individuals, configured population size {want}")
                            break
                elitist = (eng in SEA_ENGINES and lv.get("k_elites", 1) >= 1) or eng in ("DE", "SHADE")
                if not elitist:
                    continue
                strict = 0
                for (m0, g0, a), (m1, g1, b) in zip(gens, gens[1:]):
                    if not a or not b:
                        continue
                    self.pairs += 1
                    ba, bb = max(a).fitness, max(b).fitness
                    if better(problem, ba, bb):
                        inside = "inside a metaepoch" if m0 == m1 else "across metaepochs"
                        self.fail(f"best-regressed/{eng}/{'within' if m0 == m1 else 'across'}-metaepoch", f"deme {d.id} ({eng}): best fitness {ba!r} in history[{m0}][{g0}] but {bb!r} in the next generation history[{m1}][{g1}] ({inside})")
                    elif better(problem, bb, ba):
                        strict += 1
                    if eng in ("DE", "SHADE") and len(a) == len(b):
                        fa = sorted((i.fitness for i in a), reverse=not self.sc["maximize"])  # worst first
                        fb = sorted((i.fitness for i in b), reverse=not self.sc["maximize"])
                        for x, y in zip(fa, fb):
                            if better(problem, x, y):
                                self.fail(f"kth-best-regressed/{eng}", f"deme {d.id} ({eng}): sorted fitness vector got worse from history[{m0}][{g0}] to history[{m1}][{g1}] ({x!r} -> {y!r})")
                                break
                self.improvements += strict
                if len(gens) >= 3 and strict:
                    self.long_demes += 1


class C11Checker(Checker):
    prop = "C11"

    def __init__(self, sc):
        super().__init__()
        self.sc = sc
        self.multi_gen_changed = 0
        self.carried = 0

    def on_end(self, run):
        tree, tr = run.tree, run.trace
        if tree is None:
            return
        calls_by: dict[str, list] = {}
        for c in tr.calls:
            calls_by.setdefault(c.deme, []).append(c)
        import bisect

        for lvl, demes in enumerate(tree.levels):
            eng = self.sc["levels"][lvl]["engine"]
            if eng not in POP_ENGINES and eng != "CMA":
                continue
            for d in demes:
                gens = _flat_generations(d)
                # this deme's evaluations, by (genome, value) -> increasing call numbers
                when: dict[tuple, list] = {}
                for c in calls_by.get(d.id, []):
                    when.setdefault((c.x.tobytes(), c.value), []).append(c.seq)

                def first_after(key, t):
                    seqs = when.get(key)
                    if not seqs:
                        return None
                    i = bisect.bisect_right(seqs, t)
                    return seqs[i] if i < len(seqs) else None

                # "completed" is located in the deme's own call log, not by its stop-condition consultations (how often
                # and when an engine consults is not part of C11): done[j] = the latest of the earliest evaluations that
                # can account for generation j's new individuals - never later than the true completion.
                done = -1
                for ind in gens[0][2] if gens else []:
                    t = first_after((np.asarray(ind.genome, dtype=float).tobytes(), float(ind.fitness)), -1)
                    if t is not None:
                        done = max(done, t)
                for j in range(1, len(gens)):
                    m0, g0, prev = gens[j - 1]
                    m1, g1, cur = gens[j]
                    prevset = {(np.asarray(i.genome, dtype=float).tobytes(), float(i.fitness)) for i in prev}
                    if m0 == m1 and g1 >= 1:
                        startset = {(np.asarray(i.genome, dtype=float).tobytes(), float(i.fitness)) for i in d._history[m1 - 1][-1]} if m1 >= 1 else set()
                        if prevset != startset:
                            self.multi_gen_changed += 1
                    new_done = done
                    for ind in cur:
                        key = (np.asarray(ind.genome, dtype=float).tobytes(), float(ind.fitness))
                        if key in prevset:
                            self.carried += 1
                            continue
                        t = first_after(key, done)
                        if t is not None:
                            new_done = max(new_done, t)
                            continue
                        if math.isinf(key[1]) and cutoff_exhausted(run, lvl):
                            continue  # refused evaluation (sentinel): never reaches the objective
                        where = "inside a metaepoch" if m0 == m1 else "across metaepochs"
                        self.fail(
                            f"not-bred-from-previous/{eng}/{'within' if m0 == m1 else 'across'}-metaepoch",
                            f"deme {d.id} ({eng}) history[{m1}][{g1}]: individual {fmt(ind.genome)} (fitness {ind.fitness!r}) neither belongs to the preceding generation history[{m0}][{g0}] nor was evaluated after it ({where})",
                        )
                        break
                    done = new_done
        # engine proxy (SEA family): parents of the k-th run are the offspring of the (k-1)-th
        last: dict[str, list] = {}
        for e in tr.engine_log:
            did = e["deme"]
            par = [(g.tobytes(), f) for g, f, _ in e["parents"]]
            if did in last:
                if par != last[did]:
                    self.fail("engine-parents-not-previous-offspring", f"deme {did}: the parents handed to the engine are not the offspring it returned for the previous generation")
            else:
                d = next((x for _, x in tree.all_demes if x.id == did), None)
                if d is not None:
                    init = [(np.asarray(i.genome, dtype=float).tobytes(), float(i.fitness)) for i in d._history[0][0]]
                    if par != init:
                        self.fail("engine-first-parents-not-initial-population", f"deme {did}: the first generation was not bred from the initial population")
            last[did] = [(g.tobytes(), f) for g, f, _ in e["offspring"]]


# ------------------------------------------------------------------------------------------------
# C18


class C18Checker(Checker):
    prop = "C18"

    def __init__(self, sc):
        super().__init__()
        self.hib_on = bool(sc["options"].get("hibernation"))
        self.H = len(sc["levels"])
        self.model: dict[str, bool] = {"root": False}  # expected asleep flag
        self.prev_cen = None
        self.prev_calls = 0
        self.fell_asleep = 0
        self.woke_up = 0
        self.intermediate_seen = False
        self.stalled = False
        self.pending_round = None
        self.applied_round = None
        self.born_asleep: set[str] = set()

    def on_round(self, run, rnd):
        cen = rnd["before"]["census"]
        for did, c in cen.items():
            if c[CEN_ACTIVE]:
                self.born_asleep.discard(did)  # took part in a round: its flag is now that round's business
        if not self.hib_on:
            self.pending_round = rnd
            return
        # the model is updated at the next boundary, when it is known from which demes a child was really created
        self.pending_round = rnd

    def _apply_round(self, run, rnd):
        cen = rnd["before"]["census"]
        nch = rnd["before"].get("n_children", {})
        now = {d.id: len(d.children) for _, d in run.tree.all_demes}
        for did, c in cen.items():
            if c[CEN_ACTIVE] and c[CEN_LEVEL] < self.H - 1:
                # "the round took a sprout from it": a child was created from it (seeds that were returned by the
                # mechanism but never turned into a deme do not count)
                asleep = not (now.get(did, 0) > nch.get(did, 0))
                was = self.model.get(did, False)
                if asleep and not was:
                    self.fell_asleep += 1
                if was and not asleep:
                    self.woke_up += 1
                self.model[did] = asleep

    def on_boundary(self, run, k):
        tree, tr = run.tree, run.trace
        cen = census(tree)
        step_made = self.prev_cen is not None
        round_of_this_step = self.pending_round if (self.hib_on and self.pending_round is not None and self.pending_round is not self.applied_round) else None
        if step_made:
            # demes the model says were asleep at the start of the step must not have moved
            for did, p in self.prev_cen.items():
                c = cen.get(did)
                if c is None:
                    continue
                # (consequences are reported only where the flag agreed with the model: a wrong flag is reported as such)
                if self.hib_on and self.prev_model.get(did, False) and p[CEN_ACTIVE] and p[CEN_HIB]:
                    if c[CEN_NEVALS] != p[CEN_NEVALS] or c[CEN_NHIST] != p[CEN_NHIST]:
                        self.fail("sleeping-deme-ran", f"metaepoch {tree.metaepoch_count}: deme {did} should be hibernating (no sprout was taken from it in the last round it took part in) but it ran ({p[CEN_NEVALS]}->{c[CEN_NEVALS]} evaluations)")
                if (not self.hib_on or not self.prev_model.get(did, False)) and p[CEN_ACTIVE] and not (self.hib_on and p[CEN_HIB]):
                    if c[CEN_NHIST] == p[CEN_NHIST]:
                        self.fail("awake-deme-skipped", f"metaepoch {tree.metaepoch_count}: active deme {did} should be awake but did not run")
            # progress
            any_active = any(p[CEN_ACTIVE] for p in self.prev_cen.values())
            attempted = sum(c[CEN_NEVALS] for c in cen.values()) - sum(p[CEN_NEVALS] for p in self.prev_cen.values())
            # (an exhausted evaluation-cutoff wrapper refuses evaluations: attempts count as progress then)
            ran = any(cen[d][CEN_NHIST] != p[CEN_NHIST] for d, p in self.prev_cen.items() if d in cen)
            # (a generation in which no genome happened to change needs no evaluation: a step in which some deme
            #  ran is not a stall; the clause is about metaepochs in which nothing is scheduled at all)
            if any_active and len(tr.calls) == self.prev_calls and attempted == 0 and not ran:
                self.stalled = True
                sleepers = sorted(d for d, p in self.prev_cen.items() if p[CEN_ACTIVE] and p[CEN_HIB])
                self.fail(
                    "stall/no-evaluation-in-metaepoch" + ("/all-active-hibernating" if sleepers and len(sleepers) == sum(1 for p in self.prev_cen.values() if p[CEN_ACTIVE]) else ""),
                    f"metaepoch {tree.metaepoch_count} passed without a single objective evaluation although the GSC was false and demes {sorted(d for d, p in self.prev_cen.items() if p[CEN_ACTIVE])} were active (hibernating: {sleepers})",
                )
        if round_of_this_step is not None:
            self._apply_round(run, round_of_this_step)
            self.applied_round = round_of_this_step
        # flags against the model
        for did, c in cen.items():
            if did not in self.model:
                self.model[did] = False  # created by the last round: starts awake
                if 1 <= c[CEN_LEVEL] < self.H - 1:
                    self.intermediate_seen = True
            want = self.model[did] if self.hib_on else False
            if not c[CEN_ACTIVE]:
                continue  # the statement constrains active demes
            if c[CEN_LEVEL] >= self.H - 1:
                if c[CEN_HIB]:
                    self.fail("leaf-hibernating", f"leaf deme {did} is flagged hibernating")
                continue
            if bool(c[CEN_HIB]) != want:
                born_asleep = self.prev_cen is not None and did not in self.prev_cen and c[CEN_HIB]
                if born_asleep:
                    self.born_asleep.add(did)
                kind = "fresh-deme-asleep" if (did in self.born_asleep and c[CEN_HIB]) else ("flag-set-without-hibernation" if not self.hib_on else ("asleep-but-sprouted" if c[CEN_HIB] else "awake-but-did-not-sprout"))
                self.fail(f"flag/{kind}", f"metaepoch {tree.metaepoch_count}: deme {did} hibernating={c[CEN_HIB]} but the last sprouting round it took part in says {want}")
        self.prev_cen = cen
        self.prev_model = dict(self.model)
        self.prev_calls = len(tr.calls)


# ------------------------------------------------------------------------------------------------
# C09


def _norm(v, o):
    return float(np.linalg.norm(v, ord=(np.inf if o == "inf" else o)))


class C09Checker(Checker):
    prop = "C09"

    def __init__(self, sc):
        super().__init__()
        self.sc = sc
        s = sc["sprout"]
        ms = min(hi - lo for lo, hi in sc["box"])
        self.far = []  # (kind, params)
        if s["kind"] == "simple":
            self.far.append(("FarEnough", s["far_enough_frac"] * ms, 2, True))
        elif s["kind"] == "nbc":
            self.far.append(("NBC_FarEnough", s["fil_dist_factor"], 2, False))
            self.nbc_params = (s["gen_dist_factor"], s["trunc_factor"])
        else:
            g = s["generator"]
            self.nbc_params = (g.get("distance_factor"), g.get("truncation_factor")) if g["kind"] in ("NBC", "NBCLocal") else None
            for f in s.get("deme_filters", []):
                if f["kind"] == "FarEnough":
                    self.far.append(("FarEnough", f["min_distance_frac"] * ms, f.get("norm_ord", 2), True))
                elif f["kind"] == "NBC_FarEnough" and g["kind"] in ("NBC", "NBCLocal"):
                    self.far.append(("NBC_FarEnough", f["factor"], f.get("norm_ord", 2), bool(f.get("check_only_active", False))))
        self.moved_rounds = 0
        self.clone_rounds = 0
        self.checked_seeds = 0
        self.first_centroid: dict[str, np.ndarray] = {}

    def on_boundary(self, run, k):
        for _, d in run.tree.all_demes:
            pop = d.current_population
            if not pop:
                continue
            true_c = np.mean([np.asarray(i.genome, dtype=float) for i in pop], axis=0)
            self.first_centroid.setdefault(d.id, true_c)
            got = d.centroid
            if got is None:
                self.fail(f"centroid-none/{type(d).__name__}", f"deme {d.id} has a population but centroid is None")
                continue
            scale = max(1e-300, float(np.max(np.abs(true_c))), float(np.max(np.ptp([np.asarray(i.genome, dtype=float) for i in pop], axis=0))))
            if not np.all(np.abs(np.asarray(got, dtype=float) - true_c) <= 1e-9 * scale):
                self.fail(
                    f"stale-centroid/{type(d).__name__}",
                    f"metaepoch {run.tree.metaepoch_count}: deme {d.id} ({type(d).__name__}) reports centroid {fmt(got)} but the mean of its current population is {fmt(true_c)}",
                )

    def on_round(self, run, rnd):
        if not self.far:
            return
        from .refs import ref_nbc_mean_distance

        before = rnd["before"]
        cen = before["census"]
        for pid, seeds in rnd["seeds"].items():
            tl = rnd["seed_levels"][pid] + 1
            sibs = [(did, c) for did, c in cen.items() if c[CEN_LEVEL] == tl]
            for kind, thr, o, only_active in self.far:
                if kind == "NBC_FarEnough":
                    if pid in before["finished_now"] and self.sc["sprout"].get("generator", {}).get("kind") == "NBCLocal" and not cen[pid][CEN_ACTIVE]:
                        continue  # just-finished deme offers its best with mean distance 0.0 by design
                    pop = before["pops"][pid]
                    md = ref_nbc_mean_distance([g for g, _, _ in pop], [f for _, f, _ in pop], bool(self.sc["maximize"]), self.nbc_params[1])
                    if md is None or not np.isfinite(md):
                        continue
                    # A population may hold clones (identical genomes). The clustering is only defined for pairwise
                    # distinct genomes (C15): whether a clone contributes its distance once or twice to the mean is
                    # unspecified, so the more permissive of the two readings is the threshold that is enforced.
                    seen_g, dg, df = set(), [], []
                    for g, f, _ in pop:
                        key = np.asarray(g).tobytes()
                        if key not in seen_g:
                            seen_g.add(key)
                            dg.append(g)
                            df.append(f)
                    if len(dg) != len(pop):
                        self.clone_rounds += 1
                        md2 = ref_nbc_mean_distance(dg, df, bool(self.sc["maximize"]), self.nbc_params[1]) if len(dg) >= 2 else None
                        if md2 is None or not np.isfinite(md2):
                            continue
                        md = min(md, md2)
                        # truncation floor(n*t) also differs between the two readings: stay on the safe side
                        md3 = ref_nbc_mean_distance(dg, df, bool(self.sc["maximize"]), 1.0)
                        if md3 is not None and np.isfinite(md3):
                            md = min(md, md3)
                        # third reading: truncate the population with its clones, then keep distinct genomes
                        mx = bool(self.sc["maximize"])
                        order = sorted(range(len(pop)), key=lambda i: (-pop[i][1] if mx else pop[i][1]))
                        kept, seen_k = [], set()
                        for i in order[: int(len(pop) * self.nbc_params[1])]:
                            key = np.asarray(pop[i][0]).tobytes()
                            if key not in seen_k:
                                seen_k.add(key)
                                kept.append(i)
                        if len(kept) >= 2:
                            md4 = ref_nbc_mean_distance([pop[i][0] for i in kept], [pop[i][1] for i in kept], mx, 1.0)
                            if md4 is not None and np.isfinite(md4):
                                md = min(md, md4)
                        else:
                            continue
                    threshold = thr * md
                else:
                    threshold = thr
                for did, c in sibs:
                    if only_active and not c[CEN_ACTIVE]:
                        continue
                    spop = before["pops"].get(did)
                    if not spop:
                        continue
                    cent = np.mean([g for g, _, _ in spop], axis=0)
                    moved = np.linalg.norm(cent - self.first_centroid.get(did, cent)) > max(threshold, 1e-12)
                    if moved:
                        self.moved_rounds += 1
                    for g, f, _ in seeds:
                        self.checked_seeds += 1
                        dist = _norm(g - cent, o)
                        if dist <= threshold * (1 - 1e-9) - 1e-300:
                            self.fail(
                                f"sprout-too-close/{kind}",
                                f"metaepoch {rnd['metaepoch']}: seed {fmt(g)} accepted for parent {pid} lies at distance {dist!r} <= threshold {threshold!r} from the current centroid {fmt(cent)} of deme {did} (level {tl}, active={c[CEN_ACTIVE]})",
                            )


# ------------------------------------------------------------------------------------------------
# C20

import random as _random
import re as _re

from .digest import tree_digest

# (the fields a report line carries, whatever the blanks between them)
_DEME_LINE = _re.compile(
    r"^(?P<prefix>.*?)(?P<type>\w+Deme)\s+(?P<id>root|[0-9/]+)(?P<star>\s+\*\*\*\s+|\s+)f\((?P<x>[^)]*)\)\s*~=\s*(?P<fit>\S+)"
    r"(?:\s+sprout:\s*\((?P<seed>[^)]*)\);?)?\s+evals:\s*(?P<evals>\d+)\s*(?P<new>\(new_deme\))?\s*$"
)


def _rng_state():
    s = np.random.get_state()
    return (s[0], s[1].tobytes(), s[2], s[3], s[4]), _random.getstate()


class C20Checker(Checker):
    prop = "C20"

    def __init__(self, sc, look=True):
        super().__init__()
        self.sc = sc
        self.look = look
        self.displayed_max = 0
        self.hidden_seen = False
        self.zero_best = False
        self.accessor_raised: dict[str, int] = {}
        self.n_boundaries = 0

    # -- report vs attributes ----------------------------------------------------------------
    def _true_best(self, problem, inds):
        """brute force over the histories (the accessors under test are not trusted as the oracle).
        NaN ranks below every number; the problem's own worse_than is not called (it flips coins for NaN pairs)."""
        mx = bool(self.sc["maximize"])
        b = None
        for i in inds:
            if b is None:
                b = i
                continue
            fa, fb = float(i.fitness), float(b.fitness)
            if fa != fa:
                continue
            if fb != fb or (fa > fb if mx else fa < fb):
                b = i
        return b

    @staticmethod
    def _samef(a, b) -> bool:
        a, b = float(a), float(b)
        return a == b or (a != a and b != b)

    def _check_reports(self, run):
        tree = run.tree
        demes = {d.id: d for _, d in tree.all_demes}
        problem0 = run.level_problems[0]
        true_deme_best = {d.id: self._true_best(problem0, [i for m in d._history for g in m for i in g]) for d in demes.values()}
        best = self._true_best(problem0, [b for b in true_deme_best.values() if b is not None])
        for d in demes.values():
            tb, rb = true_deme_best[d.id], d.best_individual
            if tb is not None and (rb is None or not self._samef(rb.fitness, tb.fitness)):
                self.fail(f"accessor/deme-best-stale/{type(d).__name__}", f"metaepoch {tree.metaepoch_count}: deme {d.id}.best_individual reports fitness {None if rb is None else rb.fitness!r} but its history holds {tb.fitness!r}")
        if not self._samef(tree.best_individual.fitness, best.fitness):
            self.fail("accessor/tree-best-stale", f"metaepoch {tree.metaepoch_count}: tree.best_individual reports {tree.best_individual.fitness!r} but the histories hold {best.fitness!r}")
        text = tree.summary()
        head, _, rest = text.partition("\n\nLevel 1.")
        hl = head.split("\n")

        def field(lines, prefix):
            for ln in lines:
                if ln.startswith(prefix):
                    return ln[len(prefix):]
            return None

        if field(hl, "Metaepoch count: ") != str(tree.metaepoch_count):
            self.fail("summary/metaepoch-count", f"summary says metaepoch count {field(hl, 'Metaepoch count: ')!r}, tree has {tree.metaepoch_count}")
        if field(hl, "Best fitness: ") != f"{best.fitness:.4e}":
            self.fail("summary/best-fitness", f"summary says best fitness {field(hl, 'Best fitness: ')!r}, tree best is {best.fitness:.4e}")
        if field(hl, "Number of evaluations: ") != str(tree.n_evaluations):
            self.fail("summary/total-evaluations", f"summary says {field(hl, 'Number of evaluations: ')!r} evaluations, tree has {tree.n_evaluations}")
        if field(hl, "Number of demes: ") != str(len(tree.all_demes)):
            self.fail("summary/total-demes", f"summary says {field(hl, 'Number of demes: ')!r} demes, tree has {len(tree.all_demes)}")
        # level sections
        body = "Level 1." + rest
        tree_text = tree.tree()
        nan_obj = self.sc["objective"]["family"] == "nanhole"
        if nan_obj:
            # two renderings of a tree with NaN individuals may differ (coin-flipped ties): take summary()'s own tail
            k = text.rfind("\n\n" + type(tree.root).__name__ + " root")
            tree_text = text[k + 2:] if k >= 0 else tree_text
        if not text.endswith("\n" + tree_text):
            self.fail("summary/tree-part", "summary() does not end with tree()")
        body = body[: len(body) - len(tree_text) - 1] if text.endswith("\n" + tree_text) else body
        sections = _re.split(r"\n\nLevel (\d+)\.\n?", "\n\n" + body)
        got_levels = {}
        for i in range(1, len(sections) - 1, 2):
            got_levels[int(sections[i])] = sections[i + 1].strip("\n").split("\n")
        problem = run.level_problems[0]
        for lvl, lvl_demes in enumerate(tree.levels):
            lines = got_levels.get(lvl + 1)
            if lines is None:
                self.fail("summary/level-missing", f"summary has no section for level {lvl + 1}")
                continue
            with_best = [d for d in lvl_demes if d.best_individual is not None]
            if not with_best:
                if [ln for ln in lines if ln.strip()] != ["No demes available."]:
                    self.fail("summary/empty-level", f"level {lvl + 1} is empty but the summary shows {lines!r}")
                continue
            if any(ln.strip() == "No demes available." for ln in lines):
                self.fail("summary/nonempty-level-reported-empty", f"level {lvl + 1} has demes but the summary says none")
                continue
            n_ev = sum(d.n_evaluations for d in lvl_demes)
            if field(lines, "Number of evaluations: ") != str(n_ev):
                self.fail("summary/level-evaluations", f"level {lvl + 1}: summary says {field(lines, 'Number of evaluations: ')!r} evaluations, its demes report {n_ev}")
            if field(lines, "Number of demes: ") != str(len(lvl_demes)):
                self.fail("summary/level-demes", f"level {lvl + 1}: summary says {field(lines, 'Number of demes: ')!r} demes, tree has {len(lvl_demes)}")
            lb = self._true_best(problem, [true_deme_best[d.id] for d in with_best if true_deme_best[d.id] is not None])
            if field(lines, "Best fitness: ") != f"{lb.fitness:.4e}":
                self.fail("summary/level-best", f"level {lvl + 1}: summary says best fitness {field(lines, 'Best fitness: ')!r}, best over its demes is {lb.fitness:.4e}")
        # deme lines
        shown = {}
        for ln in tree_text.split("\n"):
            if not ln.strip():
                continue
            m = _DEME_LINE.match(ln)
            if m is None:
                self.fail("tree/unparsable-line", f"cannot parse tree() line {ln!r}")
                continue
            if m["id"] in shown:
                self.fail("tree/deme-shown-twice", f"deme {m['id']} appears twice in tree()")
            shown[m["id"]] = m
        expect = {"root"} | {d.id for d in demes.values() if d.metaepoch_count >= 1}
        if set(shown) != expect:
            miss, extra = sorted(expect - set(shown)), sorted(set(shown) - expect)
            self.fail("tree/displayed-set" + ("/missing" if miss else "/extra"), f"tree() shows demes {sorted(shown)}; expected root and every deme that ran a metaepoch: missing {miss}, unexpected {extra}")
        for did, m in shown.items():
            d = demes.get(did)
            if d is None:
                self.fail("tree/unknown-deme", f"tree() shows unknown deme {did}")
                continue
            if m["type"] != type(d).__name__:
                self.fail("tree/deme-type", f"tree() shows {did} as {m['type']}, it is a {type(d).__name__}")
            if int(m["evals"]) != d.n_evaluations:
                self.fail("tree/deme-evaluations", f"tree() shows {m['evals']} evaluations for deme {did}, it reports {d.n_evaluations}")
            tb = true_deme_best[did]
            if m["fit"] != f"{tb.fitness:.2e}":
                self.fail("tree/deme-fitness", f"tree() shows fitness {m['fit']} for deme {did}, its best is {tb.fitness:.2e}")
            star = m["star"].strip() == "***"
            want = float(tb.fitness) == float(best.fitness)  # (the report's own rule: equal fitness; NaN never equals)
            if star != want:
                self.fail(
                    "tree/best-marker/" + ("missing" if want else "spurious") + ("/zero-best" if best.fitness == 0 else ""),
                    f"deme {did}: best fitness {tb.fitness!r}, global best {best.fitness!r}, *** marker {'present' if star else 'absent'}",
                )
        self.displayed_max = max(self.displayed_max, len(shown))
        if len(demes) > len(expect):
            self.hidden_seen = True
        if best.fitness == 0:
            self.zero_best = True

    # -- purity ------------------------------------------------------------------------------
    def _accessors(self, tree):
        acc = [
            ("summary", lambda: tree.summary()),
            ("tree", lambda: tree.tree()),
            ("best_individual", lambda: tree.best_individual),
            ("all_individuals", lambda: tree.all_individuals),
            ("r5s_solutions", lambda: tree.r5s_solutions),
            ("n_evaluations", lambda: tree.n_evaluations),
        ]
        for _, d in tree.all_demes:
            acc.append((f"deme.best_individual", (lambda d=d: d.best_individual)))
            acc.append((f"deme.best_current_individual", (lambda d=d: d.best_current_individual)))
            acc.append((f"deme.centroid", (lambda d=d: d.centroid)))
            acc.append((f"deme.best_fitness_by_metaepoch", (lambda d=d: d.best_fitness_by_metaepoch)))
            acc.append((f"deme.all_individuals", (lambda d=d: d.all_individuals)))
        return acc

    @staticmethod
    def _same(a, b) -> bool:
        if isinstance(a, np.ndarray) or isinstance(b, np.ndarray):
            return a is not None and b is not None and np.array_equal(np.asarray(a), np.asarray(b))
        if isinstance(a, list) and isinstance(b, list):
            return len(a) == len(b) and all(x is y for x, y in zip(a, b))
        if isinstance(a, (str, int, float, dict)) or a is None:
            return a == b
        return a is b

    def _check_purity(self, run):
        tree, tr = run.tree, run.trace
        for name, fn in self._accessors(tree):
            n0, d0, r0 = len(tr.calls), tree_digest(tree), _rng_state()
            try:
                v1 = fn()
                err1 = None
            except Exception as e:  # noqa: BLE001
                v1, err1 = None, type(e).__name__
            try:
                v2 = fn()
                err2 = None
            except Exception as e:  # noqa: BLE001
                v2, err2 = None, type(e).__name__
            if len(tr.calls) != n0:
                self.fail(f"purity/{name}/evaluates-objective", f"{name} invoked the objective {len(tr.calls) - n0} times")
            if tree_digest(tree) != d0:
                self.fail(f"purity/{name}/changes-tree", f"{name} changed the tree (histories, flags or counters)")
            if _rng_state() != r0:
                self.fail(f"purity/{name}/consumes-randomness", f"{name} changed the state of a global random generator")
            if err1 or err2:
                if err1 != err2:
                    self.fail(f"purity/{name}/raises-inconsistently", f"{name} raised {err1} then {err2}")
                self.accessor_raised[name] = self.accessor_raised.get(name, 0) + 1
            elif not self._same(v1, v2):
                self.fail(f"purity/{name}/unstable-answer", f"{name} gave two different answers when called twice")

    def on_boundary(self, run, k):
        self.n_boundaries += 1
        if not self.look:
            return
        # intermittent observers exist: look only at every n-th boundary (n drawn with the scenario)
        every = int(self.sc.get("observe_every", 1))
        if every > 1 and (k % every) != int(self.sc.get("observe_offset", 0)) % every:
            return
        self._check_reports(run)
        if self.sc["objective"]["family"] != "nanhole":
            # (ties between NaN values are broken by coin flips inside worse_than: on NaN-valued objectives the
            #  accessors legitimately consume randomness and may answer differently; only the reports are judged there)
            self._check_purity(run)


# ------------------------------------------------------------------------------------------------
# C10 — specification of every sprout component, evaluated on each observed call


def _ids(inds):
    return [id(i) for i in inds]


def spec_subset(before, after) -> str | None:
    for did, inds in after.items():
        if did not in before:
            return f"filter introduced a new parent {did}"
        b = set(_ids(before[did]))
        for i in inds:
            if id(i) not in b:
                return f"filter introduced a candidate for parent {did} that was not in its input"
        if len(set(_ids(inds))) != len(inds) and len(set(_ids(before[did]))) == len(before[did]):
            return f"filter duplicated a candidate of parent {did}"
    return None


def spec_deme_limit(before, after, limit: int, problem) -> tuple[str, str] | None:
    for did, inds in before.items():
        out = after.get(did, [])
        want = min(limit, len(inds))
        if len(out) != want:
            return ("size", f"DemeLimit({limit}) kept {len(out)} of {len(inds)} candidates of parent {did}, expected {want}")
        kept = set(_ids(out))
        dropped = [i for i in inds if id(i) not in kept]
        for dr in dropped:
            for k in out:
                if better(problem, dr.fitness, k.fitness):
                    return ("kept-worse", f"DemeLimit({limit}) dropped a candidate with fitness {dr.fitness!r} of parent {did} but kept one with {k.fitness!r}")
    return None


def spec_level_limit(before, after, levels_of: dict, active: list, limit: int, problem, nlevels: int) -> tuple[str, str] | None:
    for level in range(nlevels - 1):
        parents = [d for d in before if levels_of[d] == level]
        cands = [i for d in parents for i in before[d]]
        kept = [i for d in parents for i in after.get(d, [])]
        free = limit - active[level + 1]
        if len(cands) <= free:
            if len(kept) != len(cands):
                return ("dropped-without-need", f"LevelLimit({limit}): level {level + 1} has {active[level + 1]} active demes and {len(cands)} candidates fit, but only {len(kept)} were kept")
            continue
        if len(kept) > max(free, 0):
            return ("overfull", f"LevelLimit({limit}): kept {len(kept)} candidates for level {level + 1} with {active[level + 1]} active demes there")
        fits = [i.fitness for i in cands]
        if free >= 0 and len(set(fits)) == len(fits) and len(kept) != free:
            return ("slots-not-filled", f"LevelLimit({limit}): {len(cands)} candidates with distinct fitness for {free} free slots on level {level + 1}, kept {len(kept)}")
        kid = set(_ids(kept))
        for dr in cands:
            if id(dr) in kid:
                continue
            for k in kept:
                if better(problem, dr.fitness, k.fitness):
                    return ("kept-worse", f"LevelLimit({limit}): dropped a candidate with fitness {dr.fitness!r} for level {level + 1} but kept one with {k.fitness!r} (maximize={getattr(problem, 'maximize', None)})")
    return None


def spec_skip_same(before, after, demes: dict, tree) -> tuple[str, str] | None:
    for did, inds in before.items():
        d = demes[did]
        out = after.get(did, [])
        own = [np.asarray(ch._sprout_seed.genome, dtype=float) for ch in d.children]
        level_seeds = [np.asarray(ch._sprout_seed.genome, dtype=float) for ld in tree.levels[d.level] for ch in ld.children]
        for i in out:
            g = np.asarray(i.genome, dtype=float)
            if any(np.all(np.isclose(s, g)) for s in own):
                return ("let-through-own-seed", f"SkipSameSprout let through candidate {fmt(g)} of parent {did}, numerically equal to a seed already sprouted from it")
        kept = set(_ids(out))
        for i in inds:
            if id(i) in kept:
                continue
            g = np.asarray(i.genome, dtype=float)
            if not any(np.all(np.isclose(s, g)) for s in level_seeds):
                return ("rejected-fresh-candidate", f"SkipSameSprout rejected candidate {fmt(g)} of parent {did} although it differs from every existing seed of level {d.level + 1}")
    return None


def spec_generator(gen, out: dict, demes: dict, tree, problem) -> tuple[str, str] | None:
    name = type(gen).__name__
    H = len(tree.levels)
    if name == "NBCGeneratorWithLocalMethod":
        expect = {d.id for lvl in tree.levels[:-2] for d in lvl if d.is_active}
        finished = {d.id for d in tree.levels[-2] if (not d.is_active) and d.started_at + len(d._history) == tree.metaepoch_count} if H >= 2 else set()
    else:
        expect = {d.id for lvl in tree.levels[:-1] for d in lvl if d.is_active}
        finished = set()
    got = set(out)
    if name in ("BestPerDeme", "NBC_Generator", "NBCGeneratorWithLocalMethod"):
        if got - expect - finished:
            bad = sorted(got - expect - finished)
            d = demes[bad[0]]
            why = "inactive" if not d.is_active else ("leaf" if d.level >= H - 1 else "unexpected")
            return (f"candidates-from-{why}-deme", f"{name} proposed candidates for deme {bad[0]} ({why}, level {d.level})")
        if name != "NBCGeneratorWithLocalMethod" and expect - got:
            return ("active-deme-skipped", f"{name} proposed nothing for active non-leaf demes {sorted(expect - got)}")
    for did, inds in out.items():
        d = demes[did]
        if did in finished and name == "NBCGeneratorWithLocalMethod":
            b = d.best_individual
            if len(inds) != 1 or inds[0] is not b and not (np.array_equal(inds[0].genome, b.genome) and inds[0].fitness == b.fitness):
                return ("finished-deme-offer", f"{name}: just-finished deme {did} must offer exactly its best individual")
            continue
        pop = d.current_population
        pid = set(_ids(pop))
        for i in inds:
            if id(i) not in pid and not any(np.array_equal(i.genome, p.genome) and i.fitness == p.fitness for p in pop):
                return ("candidate-not-in-current-population", f"{name}: candidate {fmt(i.genome)} for deme {did} is not a member of its current population")
        if name == "BestPerDeme":
            if len(inds) != 1:
                return ("best-per-deme-count", f"BestPerDeme proposed {len(inds)} candidates for deme {did}")
            for p in pop:
                if better(problem, p.fitness, inds[0].fitness):
                    return ("best-per-deme-not-best", f"BestPerDeme proposed fitness {inds[0].fitness!r} for deme {did} whose current population holds {p.fitness!r}")
    return None


class C10Checker(Checker):
    prop = "C10"

    def __init__(self, sc):
        super().__init__()
        self.sc = sc
        self.had_to_choose: dict[str, int] = {}
        self.events = 0

    def on_filter(self, run, e):
        self.events += 1
        problem = run.level_problems[0]
        tree = e["tree"]
        mx = "max" if self.sc["maximize"] else "min"
        if e["chain"] == "generator":
            r = spec_generator(e["generator"], e["after"], e["demes"], tree, problem)
            if r:
                self.fail(f"generator/{type(e['generator']).__name__}/{r[0]}", f"metaepoch {tree.metaepoch_count}: {r[1]}")
            return
        f = e["filter"]
        name = type(f).__name__
        msg = spec_subset(e["before"], e["after"])
        if msg:
            self.fail(f"filter/{name}/adds-candidates", f"metaepoch {tree.metaepoch_count}: {msg}")
            return
        r = None
        if name in ("FarEnough", "NBC_FarEnough", "MahalanobisFarEnough") and any(len(e["after"].get(d, [])) < len(v) for d, v in e["before"].items()):
            self.had_to_choose[name + "/removed-something"] = self.had_to_choose.get(name + "/removed-something", 0) + 1
        if name == "DemeLimit":
            if any(len(v) > f.limit for v in e["before"].values()):
                self.had_to_choose[f"DemeLimit/{mx}"] = self.had_to_choose.get(f"DemeLimit/{mx}", 0) + 1
            r = spec_deme_limit(e["before"], e["after"], f.limit, problem)
        elif name == "LevelLimit":
            levels_of = {did: d.level for did, d in e["demes"].items()}
            per = {}
            for did, inds in e["before"].items():
                per[levels_of[did] + 1] = per.get(levels_of[did] + 1, 0) + len(inds)
            if any(n > f.limit - e["active"][lv] for lv, n in per.items()):
                self.had_to_choose[f"LevelLimit/{mx}"] = self.had_to_choose.get(f"LevelLimit/{mx}", 0) + 1
            r = spec_level_limit(e["before"], e["after"], levels_of, e["active"], f.limit, problem, len(tree.levels))
        elif name == "SkipSameSprout":
            if any(len(e["after"].get(d, [])) < len(v) for d, v in e["before"].items()):
                self.had_to_choose["SkipSameSprout"] = self.had_to_choose.get("SkipSameSprout", 0) + 1
            r = spec_skip_same(e["before"], e["after"], e["demes"], tree)
        if r:
            self.fail(f"filter/{name}/{r[0]}/{mx}", f"metaepoch {tree.metaepoch_count}: {r[1]}")
