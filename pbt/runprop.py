"""Generic shard driver for the scenario-based (whole-run) properties."""
from __future__ import annotations

from typing import Callable

from .common import Tally, Violation, shard_seed
from .driver import hyp_drive
from .harness import Run
from .scenario import scenario_summary, scenarios


def labels_of(run: Run) -> list[str]:
    sc = run.sc
    out = [f"L{i}={lv['engine']}" for i, lv in enumerate(sc["levels"])]
    out.append("levels=%d" % len(sc["levels"]))
    out.append("gsc=" + sc["gsc"]["kind"])
    out.append("sprout=" + (sc["sprout"]["kind"] if sc["sprout"]["kind"] != "composed" else "composed:" + sc["sprout"]["generator"]["kind"]))
    out.append("maximize" if sc["maximize"] else "minimize")
    out.append("hibernation" if sc["options"].get("hibernation") else "no-hibernation")
    out.append("objective=" + sc["objective"]["family"])
    if getattr(run, "via_hms", False):
        out.append("entered_through_hms()")
    if sc.get("use_cache"):
        out.append("function_problem_caches")
    if run.tree is not None:
        t = run.tree
        out.append("height_reached=%d" % sum(1 for l in t.levels if l))
        n = sum(len(v) for r in run.trace.rounds for v in r["seeds"].values())
        out.append("sprouts=" + ("0" if n == 0 else "1-2" if n <= 2 else "3-6" if n <= 6 else "7+"))
        out.append("metaepochs=" + ("0" if t.metaepoch_count == 0 else "1-2" if t.metaepoch_count <= 2 else "3-5" if t.metaepoch_count <= 5 else "6+"))
        ft = run.trace.first_true
        if ft is not None:
            out.append("gsc_first_true_asked_by=" + run.trace.timeline[ft].asker)
        else:
            out.append("gsc_first_true_asked_by=never")
    if run.crash:
        out.append("crash=" + run.crash[0])
    return out


def scenario_shard(
    prop: str,
    tally: Tally,
    seed: int,
    shard: int,
    n_examples: int,
    profile: dict,
    make_checkers: Callable[[dict], list],
    judge: Callable[[Run], tuple[list[str], bool]],
    run_kwargs: dict | None = None,
    crash_is_violation: bool = False,
    stepwise: bool = False,
    salt: int = 0,
    post: Callable[[Run], list[Violation]] | None = None,
    keep_on_crash: bool = False,
):
    run_kwargs = run_kwargs or {}

    def body(sc):
        run = Run(sc, checkers=make_checkers(sc), **run_kwargs)
        if stepwise:
            run.run_stepwise()
        else:
            run.run_all()
        vs = list(run.violations)
        if post is not None and not run.crash:
            vs.extend(post(run))
        if sc.get("second_run_seed") is not None and not run.crash and run.tree is not None:
            # the same sprout-mechanism objects handed to a second tree (a different seeded run), as users do with a
            # module-level get_NBC_sprout(): state kept on generator / filter / mechanism objects must not leak over
            sc2 = dict(sc)
            sc2["options"] = dict(sc["options"], random_seed=int(sc["second_run_seed"]))
            sc2["second_run_seed"] = None
            run2 = Run(sc2, checkers=make_checkers(sc2), reuse_from=run, **run_kwargs)
            if stepwise:
                run2.run_stepwise()
            else:
                run2.run_all()
            tally.label("second_run_with_reused_mechanism")
            if not run2.crash:
                for v in run2.violations:
                    vs.append(Violation(v.prop, v.signature + "/second-tree-same-mechanism", "second tree run with the same sprout-mechanism objects: " + v.detail, v.data))
        if run.crash:
            tally.aborted[run.crash[0]] = tally.aborted.get(run.crash[0], 0) + 1
            if crash_is_violation and not run.timed_out:
                vs.append(Violation(prop, f"{prop}/run-raised/{run.crash[0]}", "pyhms raised on a sound configuration: " + run.crash[1][-700:]))
            elif not keep_on_crash or run.timed_out:
                vs = []  # the case is discarded for this property (foreign defect)
            # (keep_on_crash: the property's monitors only state facts about what was recorded before the
            #  exception - sizes, evaluated points - which stay true; the crash may well be their consequence)
        extra_labels, nontrivial = judge(run)
        for lb in labels_of(run) + list(extra_labels):
            tally.label(lb)
        sample = scenario_summary(sc)
        sample["outcome"] = run.shape()
        tally.add_case(sc, nontrivial and not run.crash, sample=sample)
        return vs

    return hyp_drive(
        prop, scenarios(profile), body, tally=tally, max_examples=n_examples, seed=shard_seed(seed, shard, salt), kind="scenario"
    )


def replay_scenario(sc: dict, make_checkers, run_kwargs=None, crash_is_violation=False, prop="", stepwise=False, post=None, keep_on_crash=False) -> list[Violation]:
    run = Run(sc, checkers=make_checkers(sc), **(run_kwargs or {}))
    if stepwise:
        run.run_stepwise()
    else:
        run.run_all()
    vs = list(run.violations)
    if post is not None and not run.crash:
        vs.extend(post(run))
    if sc.get("second_run_seed") is not None and not run.crash and run.tree is not None:
        sc2 = dict(sc)
        sc2["options"] = dict(sc["options"], random_seed=int(sc["second_run_seed"]))
        sc2["second_run_seed"] = None
        run2 = Run(sc2, checkers=make_checkers(sc2), reuse_from=run, **(run_kwargs or {}))
        if stepwise:
            run2.run_stepwise()
        else:
            run2.run_all()
        if not run2.crash:
            for v in run2.violations:
                vs.append(Violation(v.prop, v.signature + "/second-tree-same-mechanism", "second tree run with the same sprout-mechanism objects: " + v.detail, v.data))
    if run.crash:
        if crash_is_violation and not run.timed_out:
            vs.append(Violation(prop, f"{prop}/run-raised/{run.crash[0]}", "pyhms raised: " + run.crash[1][-700:]))
        elif not keep_on_crash or run.timed_out:
            print("  (case aborted by a pyhms exception: %s)" % run.crash[0])
            vs = []
    return vs
