"""C01 operator tier: one to three engine steps on populations that sit on faces and corners of the box,
plus minimize() end to end."""
from __future__ import annotations

import math

import numpy as np
from hypothesis import strategies as st

from ..common import Tally, Violation, shard_seed
from ..driver import hyp_drive
from ..scenario import Objective, boxes
from . import minimize_tier

PROP = "C01"
BUDGET = {"quick": 6400, "thorough": 200000}
ENGINES = ["SEA", "SEAWithCrossover", "GAStyleSEA", "SEAWithAdaptiveMutation", "MWEA", "DE", "DEdither", "SHADE"]
S_CLS = st.sampled_from(["lo", "hi", "lo", "hi", "lo+", "hi-", "mid", "in"])
S_UNIT = st.floats(0.0, 1.0, allow_nan=False)


@st.composite
def cases(draw):
    dim = draw(st.sampled_from([2, 2, 3, 4]))
    box = draw(boxes(dim))
    n = draw(st.integers(4, 10))
    mode = draw(st.sampled_from(["mixed", "mixed", "corner", "face"]))
    corner = [draw(st.sampled_from(["lo", "hi"])) for _ in range(dim)]
    rows = []
    for i in range(n):
        row = []
        for j in range(dim):
            lo, hi = box[j]
            if mode == "corner":
                c = corner[j]
            elif mode == "face" and j == 0:
                c = corner[0]
            else:
                c = draw(S_CLS)
            if c == "lo":
                x = lo
            elif c == "hi":
                x = hi
            elif c == "lo+":
                x = float(np.nextafter(lo, math.inf))
            elif c == "hi-":
                x = float(np.nextafter(hi, -math.inf))
            elif c == "mid":
                x = (lo + hi) / 2
            else:
                x = min(max(lo + draw(S_UNIT) * (hi - lo), lo), hi)
            row.append(x)
        rows.append(row)
    eng = draw(st.sampled_from(ENGINES))
    case = {
        "box": box,
        "genomes": rows,
        "engine": eng,
        "maximize": draw(st.booleans()),
        "family": draw(st.sampled_from(["linear", "sphere", "step", "constant"])),
        "seed": draw(st.integers(0, 2**31 - 1)),
        "steps": draw(st.integers(1, 3)),
        "std_frac": draw(st.sampled_from([0.01, 0.1, 0.5, 2.0])),
        "p_mutation": draw(st.sampled_from([1.0, 0.5, 0.2, 0.0])),
        "p_crossover": draw(st.sampled_from([0.0, 0.7, 1.0])),
        "k_elites": draw(st.integers(1, 3)),
        "scaling": draw(st.sampled_from([0.5, 0.8, 1.5, 3.0])),
        "crossover": draw(st.sampled_from([0.1, 0.9, 1.0])),
        "memory": draw(st.sampled_from([2, 5])),
    }
    return case


def check_case(case) -> tuple[list[Violation], bool]:
    from pyhms.core.individual import Individual
    from pyhms.core.problem import FunctionProblem
    from pyhms.demes.single_pop_eas import sea as sea_mod
    from pyhms.demes.single_pop_eas.de import DE, SHADE

    box = np.array(case["box"], dtype=float)
    lo, hi = box[:, 0], box[:, 1]
    obj = Objective(case["family"], list((lo + hi) / 2), lo, hi, -1.0 if case["maximize"] else 1.0, 1.0, [1.0, -1.0, 0.5, 1.0][: len(lo)])
    log = []

    def fun(x):
        xc = np.array(x, dtype=float, copy=True)
        log.append(xc)
        return obj(xc)

    problem = FunctionProblem(fun, bounds=box, maximize=case["maximize"])
    G = np.array(case["genomes"], dtype=float)
    parents = [Individual(g.copy(), problem=problem) for g in G]
    Individual.evaluate_population(parents)
    n_init = len(log)
    ms = float(np.min(hi - lo))
    eng = case["engine"]
    np.random.seed(case["seed"])
    import random

    random.seed(case["seed"])
    if eng in ("DE", "DEdither"):
        engine = DE(use_dither=(eng == "DEdither"), crossover_probability=case["crossover"], f=case["scaling"])
        run = lambda p: engine.run(p)  # noqa: E731
    elif eng == "SHADE":
        engine = SHADE(case["memory"], len(parents))
        run = lambda p: engine.run(p)  # noqa: E731
    else:
        cls = getattr(sea_mod, eng)
        engine = cls.create(
            problem=problem,
            mutation_std=case["std_frac"] * ms,
            p_mutation=case["p_mutation"],
            p_crossover=case["p_crossover"],
            k_elites=case["k_elites"],
            election_group_size=max(case["k_elites"], min(len(parents), 4)),
        )
        run = lambda p: engine.run(p, mutation_std=case["std_frac"] * ms)  # noqa: E731
    vs = []
    pop = parents
    for s in range(case["steps"]):
        pop = run(pop)
        for ind in pop:
            g = np.asarray(ind.genome, dtype=float)
            if not (np.all(g >= lo) and np.all(g <= hi)):
                j = int(np.argmax((g < lo) | (g > hi)))
                vs.append(Violation(PROP, f"C01/operator/{eng}/offspring-outside", f"{eng} step {s}: offspring genome {g!r} outside box coordinate {j} [{lo[j]!r},{hi[j]!r}]"))
                break
    for xc in log[n_init:]:
        if not (np.all(xc >= lo) and np.all(xc <= hi)):
            j = int(np.argmax((xc < lo) | (xc > hi)))
            vs.append(Violation(PROP, f"C01/operator/{eng}/evaluated-outside", f"{eng}: objective invoked at {xc!r} outside box coordinate {j} [{lo[j]!r},{hi[j]!r}] (parents on faces/corners)"))
            break
    on_face = bool(np.any((G == lo) | (G == hi)))
    return vs, on_face and len(log) > n_init


def run_shard(tier, seed, shard, nshards, tally: Tally, scale=1.0):
    n = max(5, int(BUDGET[tier] * scale / nshards))

    def body(case):
        vs, nt = check_case(case)
        tally.label("operator=" + case["engine"])
        tally.add_case({"op": case}, nt, sample={"operator_case": {k: case[k] for k in ("engine", "box", "genomes", "steps", "maximize")}})
        tally.count("operator_cases")
        return vs

    fs = hyp_drive(PROP, cases(), body, tally=tally, max_examples=n, seed=shard_seed(seed, shard, 3), kind="operator")
    fs += minimize_tier.run_shard(PROP, tier, seed, shard, nshards, tally, scale * 0.5)
    return fs


def replay(case, kind=""):
    if kind == "minimize":
        return minimize_tier.replay(PROP, case)
    if "op" in case:
        case = case["op"]
    return check_case(case)[0]
