"""C09 — sprouts keep their distance from existing demes; centroids are current."""
from ..checkers import C09Checker
from ..propbase import ScenarioProperty

PROP = "C09"
RULE = (
    "generated configurations with FarEnough (norms 1, 2, inf) / NBC_FarEnough (all / active) mechanisms and SEA, DE, SHADE, "
    "CMA-ES, local target levels, >=4 metaepochs so that siblings move; at every boundary deme.centroid must equal the mean of "
    "the current population (1e-9 relative); at every sprouting round every accepted seed must lie farther than the threshold "
    "(min_distance, or factor x the reference nearest-better mean distance of the parent's population) from the centroid - "
    "recomputed by the observer from a population snapshot - of every sibling the filter considers. Non-trivial = a round in "
    "which a considered sibling's centroid had moved by more than the threshold since its creation; distinct = distinct scenario digests."
)
ASSUMPTIONS = [
    "a seed is reported only when closer than threshold*(1-1e-9)",
    "NBC_FarEnough thresholds are recomputed with an independent O(n^2) nearest-better reference; user-supplied features of scripted generators are not judged",
]


def _judge(run):
    ch = run.checkers[0]
    return (["far_filter_present"] if ch.far else []), bool(ch.moved_rounds)


P = ScenarioProperty(
    PROP,
    {"levels": (2, 3), "cap": (8, 12), "families": ["sphere", "rastrigin", "step", "linear", "constant", "abssum", "twobasin", "offset", "infwall"], "sprout_kinds": ["simple", "nbc", "composed", "composed", "composed"], "force_far": True, "second_run": True, "generators": ["NBC", "NBC", "NBC", "NBCLocal", "BestPerDeme", "Scripted"], "level_limit_min": 2, "gsc_kinds": ["MetaepochLimit", "SingularProblemEvalLimitReached", "FitnessEvalLimitReached", "AllStopped"]},
    lambda sc: [C09Checker(sc)],
    _judge,
    quick=1600,
    thorough=30000,
)
# second profile: children that finish early (their centroids stay where they are) while the parent keeps proposing
# candidates from the same basin, NBC_FarEnough over ALL siblings, and the same mechanism objects handed to a second
# tree - the situation in which remembered (instead of current) centroids of finished demes go wrong
P_FINISHED = ScenarioProperty(
    PROP,
    {
        "levels": (2, 2),
        "cap": (8, 12),
        "sprout_kinds": ["nbc", "nbc", "composed"],
        "force_far": True,
        "generators": ["NBC"],
        "level_limit_min": 2,
        "second_run": True,
        "root_lsc_kinds": ["DontStop"],
        "lsc_kinds": ["MetaepochLimit", "MetaepochLimit", "DontRun"],
        "gsc_kinds": ["Never", "Never", "MetaepochLimit"],
        "families": ["sphere", "twobasin", "rastrigin", "abssum"],
        "root_engines": ["SEA", "SEA", "DE", "SHADE", "SEAWithCrossover"],
        "hibernation": 0.0,
    },
    lambda sc: [C09Checker(sc)],
    _judge,
    quick=640,
    thorough=12000,
)


def run_shard(tier, seed, shard, nshards, tally, scale=1.0):
    fs = P.run_shard(tier, seed, shard, nshards, tally, scale)
    fs += P_FINISHED.run_shard(tier, seed, shard, nshards, tally, scale, salt=29)
    return fs


replay = P.replay
