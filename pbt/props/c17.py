"""C17 — bound repair lands inside the box and only moves what it must.

Direct tier: apply_bounds(genomes, bounds, method) on constructed vectors, compared with an
exact rational reference (fractions.Fraction)."""
from __future__ import annotations

import itertools
import math
from fractions import Fraction

import numpy as np
from hypothesis import strategies as st

from ..common import Tally, Violation, shard_seed
from ..driver import hyp_drive

PROP = "C17"
RULE = (
    "case = (method in clip/reflect/toroidal, box of 1-4 coordinates from a menu of decimal/offset/tiny/huge boxes or "
    "random decimal literals (integer-valued boxes also as an integer-dtype bounds array), matrix of 1-4 vectors built per coordinate from classes interior / on a face / 1-3 ulps "
    "inside or outside a face / k ranges below or above (k up to 1e6, float and exactly-rounded rational multiples) / "
    "mirror images / far away); plus a deterministic grid of faces x ulps x multiples x menu boxes enumerated every run. "
    "Non-trivial = some coordinate is on a face, within 3 ulps of one, or an exact multiple of the range away; "
    "distinct = distinct (method, box, matrix) digests."
)
ASSUMPTIONS = [
    "inputs are finite floats with |x - lower| <= 1e12 ranges (no overflow); NaN/inf are not 'real vectors'",
    "'a few ulps' is taken as 4 ulp of max(|lower|,|upper|,range); congruence is checked against an exact rational "
    "reference with tolerance 4*(1+|k|) ulp of that magnitude + 4 ulp(|x|), k = number of ranges travelled",
    "for toroidal, a result on either face is accepted for inputs congruent to a face",
]

METHODS = ["clip", "reflect", "toroidal"]
MENU = [
    (-20.0, 20.0),
    (-10.0, 10.0),
    (-0.1, 0.2),
    (0.3, 0.7),
    (0.0, 1.0),
    (-5.0, -1.0),
    (0.1, 0.3),
    (-0.7, -0.1),
    (1e-3, 3e-3),
    (-1e6, 1e6),
    (1000.1, 1000.4),
    (-1e-9, 2e-9),
    (5.0, 5.000001),
    (-3.3, 1e3),
]


def ulp(x: float) -> float:
    x = abs(float(x))
    if x == 0.0:
        return 5e-324
    return float(np.spacing(x))


def step(x: float, n: int) -> float:
    """n ulps up (n>0) or down (n<0)"""
    d = math.inf if n > 0 else -math.inf
    for _ in range(abs(n)):
        x = float(np.nextafter(x, d))
    return x


def rational_to_float(q: Fraction) -> float:
    return float(q)  # correctly rounded


# ----------------------------------------------------------------------------------------------
# reference


def check_coord(method: str, lo: float, hi: float, x: float, y: float) -> tuple[str, str] | None:
    """returns (sub-check, detail) or None. All comparisons exact unless stated."""
    if not (y == y):
        return ("nan", f"result is NaN for x={x!r}")
    if y < lo or y > hi:
        side = "above-upper" if y > hi else "below-lower"
        where = "on-face" if x in (lo, hi) else ("inside" if lo < x < hi else "outside")
        return (f"out-of-box/{side}/input-{where}", f"{method}: x={x!r} -> y={y!r} not in [{lo!r},{hi!r}]")
    R = Fraction(hi) - Fraction(lo)
    M = max(abs(lo), abs(hi), float(R))
    if lo <= x <= hi:
        if abs(Fraction(y) - Fraction(x)) > 4 * Fraction(ulp(M)):
            where = "upper-face" if x == hi else ("lower-face" if x == lo else "interior")
            return (f"moved-in-box-point/{where}", f"{method}: in-box x={x!r} moved to y={y!r} (box [{lo!r},{hi!r}])")
        return None
    fx, fy, flo = Fraction(x), Fraction(y), Fraction(lo)
    if method == "clip":
        want = lo if x < lo else hi
        if y != want:
            return ("clip-not-nearest-face", f"clip: x={x!r} -> y={y!r}, expected {want!r}")
        return None
    k = abs((fx - flo) / R)
    tol = 4 * (1 + k) * Fraction(ulp(M)) + 4 * Fraction(ulp(x))
    if tol >= R:
        return None  # congruence numerically meaningless this far out; the in-box clause was checked
    if method == "toroidal":
        t = (fx - flo) % R
        ref = flo + t
        d = abs(fy - ref)
        if d <= tol or abs(d - R) <= tol:
            return None
        return ("toroidal-not-congruent", f"toroidal: x={x!r} -> y={y!r}, exact reference {float(ref)!r} (box [{lo!r},{hi!r}])")
    if method == "reflect":
        t = (fx - flo) % (2 * R)
        if t > R:
            t = 2 * R - t
        ref = flo + t
        if abs(fy - ref) <= tol:
            return None
        return ("reflect-not-mirror", f"reflect: x={x!r} -> y={y!r}, exact reference {float(ref)!r} (box [{lo!r},{hi!r}])")
    raise AssertionError(method)


def check_case(case: dict) -> list[Violation]:
    from pyhms.demes.single_pop_eas.common import apply_bounds

    method = case["method"]
    bounds = np.array(case["bounds"], dtype=float)
    if case.get("int_bounds"):
        bounds = np.array(case["bounds"]).astype(int)  # bounds given as integers (as the repository's own test config does)
    X = np.array(case["x"], dtype=float).reshape(-1, len(bounds))
    X0 = X.copy()
    Y = apply_bounds(X, bounds, method)
    out = []
    Y = np.asarray(Y, dtype=float)
    if Y.shape != X0.shape:
        return [Violation(PROP, f"C17/{method}/shape", f"result shape {Y.shape} != input shape {X0.shape}")]
    if not np.array_equal(X, X0):
        out.append(Violation(PROP, f"C17/{method}/input-mutated", "apply_bounds modified its input array in place"))
    seen = set()
    for i in range(X0.shape[0]):
        for j in range(X0.shape[1]):
            r = check_coord(method, float(bounds[j, 0]), float(bounds[j, 1]), float(X0[i, j]), float(Y[i, j]))
            if r is not None and r[0] not in seen:
                seen.add(r[0])
                out.append(Violation(PROP, f"C17/{method}/{r[0]}", r[1], {"coord": [i, j]}))
    return out


# ----------------------------------------------------------------------------------------------
# generators

NONTRIVIAL_CLASSES = {"lo", "hi", "lo-ulp", "lo+ulp", "hi-ulp", "hi+ulp", "below-k", "above-k", "below-kq", "above-kq", "mirror"}


S_BOXKIND = st.sampled_from(["menu", "menu", "decimal", "scaled"])
S_MENU = st.sampled_from(MENU)
S_SCALE = st.sampled_from([1e-12, 1e-6, 1e-3, 0.3, 1.0, 40.0, 1e6, 1e12])
S_WIDTH = st.sampled_from([0.5, 1.0, 1.7, 4.0, 0.1, 0.3])
S_OFF = st.sampled_from([-0.5, -1.0, 0.0, 0.37, -0.1, 1000.0, -1000.3])
S_CLS = st.sampled_from(
    ["interior", "lo", "hi", "lo-ulp", "lo+ulp", "hi-ulp", "hi+ulp", "below-k", "above-k", "below-kq", "above-kq",
     "mirror", "near-out", "far"]
)
S_UNIT = st.floats(0.0, 1.0, allow_nan=False)
S_N13 = st.integers(1, 3)
S_N14 = st.integers(1, 4)
S_K = st.one_of(st.integers(1, 8), st.sampled_from([10, 100, 1000, 10**6, 3, 7, 2**20]))
S_BASE = st.sampled_from(["lo", "hi", "mid", "t"])
S_DJ = st.integers(-2, 2)
S_BOOL = st.booleans()
S_NEAR = st.floats(1e-9, 1.5, allow_nan=False)
S_MAG = st.sampled_from([1e3, 1e6, 1e9, 1e12])
S_F011 = st.floats(0.1, 1.0, allow_nan=False)
S_METHOD = st.sampled_from(METHODS)
S_A = st.integers(-9999, 9999)
S_W = st.integers(1, 9999)
S_E = st.integers(-6, 6)


@st.composite
def boxes(draw) -> tuple[float, float]:
    kind = draw(S_BOXKIND)
    if kind == "menu":
        return draw(S_MENU)
    if kind == "decimal":
        digits = draw(S_N14)
        a = draw(S_A)
        w = draw(S_W)
        e = draw(S_E)
        lo = float(f"{a}e{e - digits}")
        hi = float(f"{a + w}e{e - digits}")
        if not lo < hi:
            hi = step(lo, 4)
        return (lo, hi)
    s = draw(S_SCALE)
    w = s * draw(S_WIDTH)
    off = draw(S_OFF)
    lo = off * w
    hi = lo + w
    if not lo < hi:
        hi = step(lo, 8)
    return (lo, hi)


@st.composite
def coords(draw, lo: float, hi: float) -> tuple[float, str]:
    R = hi - lo
    cls = draw(S_CLS)
    if cls == "interior":
        t = draw(S_UNIT)
        x = lo + t * R
        x = min(max(x, lo), hi)
        return x, ("interior" if lo < x < hi else "lo" if x == lo else "hi")
    if cls == "lo":
        return lo, cls
    if cls == "hi":
        return hi, cls
    n = draw(S_N13)
    if cls == "lo-ulp":
        return step(lo, -n), cls
    if cls == "lo+ulp":
        x = step(lo, n)
        return (x, cls) if x < hi else (lo, "lo")
    if cls == "hi-ulp":
        x = step(hi, -n)
        return (x, cls) if x > lo else (hi, "hi")
    if cls == "hi+ulp":
        return step(hi, n), cls
    k = draw(S_K)
    base = draw(S_BASE)
    t = {"lo": 0.0, "hi": 1.0, "mid": 0.5}.get(base)
    if t is None:
        t = draw(S_UNIT)
    if cls in ("below-k", "above-k"):
        sgn = -1 if cls == "below-k" else 1
        x = (lo + t * R) + sgn * k * R
        dj = draw(S_DJ)
        x = step(x, dj) if dj else x
        return x, cls
    if cls in ("below-kq", "above-kq"):
        sgn = -1 if cls == "below-kq" else 1
        Rq = Fraction(hi) - Fraction(lo)
        q = Fraction(lo) + Fraction(t) * Rq + sgn * k * Rq
        x = rational_to_float(q)
        return x, cls
    if cls == "mirror":
        inner = lo + t * R
        face = lo if draw(S_BOOL) else hi
        x = 2 * face - inner
        return x, cls
    if cls == "near-out":
        d = draw(S_NEAR) * R
        return (lo - d if draw(S_BOOL) else hi + d), cls
    mag = draw(S_MAG) * R * draw(S_F011)
    return (lo - mag if draw(S_BOOL) else hi + mag), "far"


@st.composite
def cases(draw) -> dict:
    method = draw(S_METHOD)
    d = draw(S_N14)
    same = draw(S_BOOL)
    if same:
        b = draw(boxes())
        bnds = [b] * d
    else:
        bnds = [draw(boxes()) for _ in range(d)]
    n = draw(S_N14)
    X, C = [], []
    for _ in range(n):
        row, crow = [], []
        for j in range(d):
            x, c = draw(coords(bnds[j][0], bnds[j][1]))
            row.append(x)
            crow.append(c)
        X.append(row)
        C.append(crow)
    case = {"method": method, "bounds": [list(b) for b in bnds], "x": X, "cls": C}
    if all(float(lo).is_integer() and float(hi).is_integer() and abs(lo) < 2**31 and abs(hi) < 2**31 for lo, hi in bnds) and draw(S_BOOL):
        case["int_bounds"] = True
    return case


def grid_cases():
    """deterministic enumeration: every menu box x every method x adversarial coordinate list"""
    for (lo, hi), method in itertools.product(MENU, METHODS):
        R = hi - lo
        Rq = Fraction(hi) - Fraction(lo)
        xs, cs = [], []

        def add(x, c):
            if math.isfinite(x):
                xs.append(float(x))
                cs.append(c)

        for n in range(0, 4):
            add(step(lo, n), "lo+ulp" if n else "lo")
            add(step(lo, -n), "lo-ulp" if n else "lo")
            add(step(hi, n), "hi+ulp" if n else "hi")
            add(step(hi, -n), "hi-ulp" if n else "hi")
        add((lo + hi) / 2, "interior")
        for k in [1, 2, 3, 4, 5, 7, 10, 16, 100, 1000, 4097, 10**6]:
            for t, tq in [(0.0, Fraction(0)), (1.0, Fraction(1)), (0.5, Fraction(1, 2)), (0.25, Fraction(1, 4))]:
                for sgn in (-1, 1):
                    add((lo + t * R) + sgn * k * R, "below-k" if sgn < 0 else "above-k")
                    add(rational_to_float(Fraction(lo) + tq * Rq + sgn * k * Rq), "below-kq" if sgn < 0 else "above-kq")
                    for dj in (-1, 1):
                        add(step(lo + sgn * k * R, dj), "below-k" if sgn < 0 else "above-k")
        for t in [0.0, 0.1, 0.5, 0.9, 1.0]:
            add(2 * lo - (lo + t * R), "mirror")
            add(2 * hi - (lo + t * R), "mirror")
        yield {"method": method, "bounds": [[lo, hi]], "x": [[x] for x in xs], "cls": [[c] for c in cs]}
        if float(lo).is_integer() and float(hi).is_integer() and abs(lo) < 2**31 and abs(hi) < 2**31:
            yield {"method": method, "bounds": [[lo, hi]], "x": [[x] for x in xs], "cls": [[c] for c in cs], "int_bounds": True}


# ----------------------------------------------------------------------------------------------


def _body_factory(tally: Tally):
    def body(case):
        vs = check_case(case)
        nontriv = any(c in NONTRIVIAL_CLASSES for row in case["cls"] for c in row)
        tally.add_case({"m": case["method"], "b": case["bounds"], "x": case["x"]}, nontriv, sample=case)
        tally.label("method=" + case["method"])
        for row in case["cls"]:
            for c in row:
                tally.label("coord=" + c)
        tally.count("vectors", len(case["x"]))
        tally.count("coordinates", sum(len(r) for r in case["x"]))
        return vs

    return body


def run_shard(tier, seed, shard, nshards, tally: Tally, scale: float = 1.0):
    from ..driver import Collector

    n = {"quick": 6000, "thorough": 150000}[tier]
    n = max(10, int(n * scale))
    body = _body_factory(tally)
    failures = []
    if shard == 0:
        coll = Collector(PROP, tally, "grid", 0)
        for gc in grid_cases():
            vs = body(gc)
            tally.count("grid_cases")
            # reduce to single failing vectors so that the replay is minimal
            fresh = [v for v in vs if v.signature not in coll.known]
            for v in vs:
                if v.signature in coll.known:
                    tally.known_hits[v.signature] = tally.known_hits.get(v.signature, 0) + 1
            for v in fresh:
                if v.signature in coll.best:
                    continue
                i = v.data["coord"][0] if "coord" in v.data else 0
                small = {"method": gc["method"], "bounds": gc["bounds"], "x": [gc["x"][i]], "cls": [gc["cls"][i]]}
                from ..driver import Failure

                coll.best[v.signature] = Failure(PROP, v.signature, small, [v], "grid")
        failures.extend(coll.best.values())
    failures.extend(
        hyp_drive(PROP, cases(), body, tally=tally, max_examples=n, seed=shard_seed(seed, shard), kind="direct")
    )
    return failures


def replay(case, kind=""):
    return check_case(case)
