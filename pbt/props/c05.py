"""C05 — run() stops exactly at the global stop condition, with a bounded wind-down."""
from ..checkers import C05Checker
from ..propbase import ScenarioProperty

PROP = "C05"
RULE = (
    "generated complete configurations over every shipped GSC (budgets around multiples of the population sizes so the "
    "condition can flip after any generation of any deme) run with the real DemeTree.run(); the timeline of all GSC "
    "consultations (who asked, verdict, census of all demes) is checked: return at the metaepoch of the first true verdict, "
    "metaepoch_count == number of loop-head consultations that were false (exactly n for MetaepochLimit(n), 0 for DontRun), no "
    "sprouting round and no new deme after the first true, each deme at most one further engine iteration (<= population size "
    "/ lambda evaluations, or one local search), later verdicts true, run() returns normally; plus minimize(maxiter=n).nit == n. "
    "Non-trivial = the condition first became true at a consultation made by a deme mid-metaepoch while another deme was still due "
    "to run; distinct = distinct scenario digests."
)
ASSUMPTIONS = [
    "the effective GSC is the user-defined disjunction (shipped condition OR metaepoch cap), itself a legal GSC",
    "the asker of a consultation is identified by walking the Python call stack to the first frame whose self is a deme or the tree",
]


def _judge(run):
    ch = run.checkers[0]
    labels = []
    if ch.mid:
        labels.append("first_true_mid_metaepoch")
    return labels, bool(ch.mid and ch.others_pending)


from ..scenario import Objective  # noqa: E402

# (NaN-valued objectives are included: nothing in this property's oracle interprets objective values)
P = ScenarioProperty(PROP, {"families": Objective.FAMILIES + ["nanhole"]}, lambda sc: [C05Checker(sc)], _judge, quick=3200, thorough=60000, crash_is_violation=True)


# second profile: the sticky precision condition under objectives with undefined (NaN) or infinite regions, several
# demes per metaepoch - a condition that was observed true must stay true through the wind-down
P_PREC = ScenarioProperty(
    PROP,
    {
        "levels": (2, 3),
        "families": ["nanhole", "nanhole", "infwall", "sphere"],
        "gsc_kinds": ["SingularProblemPrecisionReached"],
        "sprouty": True,
        "level_limit_min": 2,
        "root_lsc_kinds": ["DontStop"],
        "lsc_kinds": ["DontStop", "MetaepochLimit"],
        "cap": (6, 10),
    },
    lambda sc: [C05Checker(sc)],
    _judge,
    quick=480,
    thorough=8000,
    crash_is_violation=True,
)


def run_shard(tier, seed, shard, nshards, tally, scale=1.0):
    from . import minimize_tier

    fs = P.run_shard(tier, seed, shard, nshards, tally, scale)
    fs += P_PREC.run_shard(tier, seed, shard, nshards, tally, scale, salt=37)
    fs += minimize_tier.run_shard(PROP, tier, seed, shard, nshards, tally, scale)
    return fs


def replay(case, kind=""):
    if kind == "minimize":
        from . import minimize_tier

        return minimize_tier.replay(PROP, case)
    return P.replay(case, kind)
