"""C07 — the demes always form a well-formed tree; sprout seeds come from the parent."""
from hypothesis import strategies as st

from ..checkers import C07Checker
from ..common import Violation, shard_seed
from ..driver import hyp_drive
from ..propbase import ScenarioProperty

PROP = "C07"
RULE = (
    "generated complete configurations of height 1-3 (custom deme class registered through the config included, both shipped "
    "mechanisms and user-composed ones) run with DemeTree.run(); at every metaepoch boundary: one root 'root', every other deme "
    "in exactly one children list one level up and in levels[k], unique ids, class mapped from the level's config, nothing below "
    "the last level, started_at consistent; at every sprouting round each returned seed is bit-equal to a member of the parent's "
    "population snapshot (local-method generator: or the best of a just-finished parent), each new child's seed is one the "
    "mechanism returned for its parent, SEA/DE/SHADE children contain the seed in their initial population. Non-trivial = height "
    "3 reached with >=2 demes on level 1 and >=2 on level 2; distinct = distinct scenario digests. Registry tier: sequences of 2-3 "
    "trees over level-config objects of user-defined config classes (reused between trees or fresh), each tree registering its "
    "own deme class per config class: at every boundary of every tree each deme's type is exactly the class that tree's config "
    "registers for its level's config class (non-trivial = the registration "
    "changes between two trees that share config objects)."
)
ASSUMPTIONS = ["sprouting rounds are observed through a pass-through wrapper around the configured sprout mechanism"]


def _judge(run):
    t = run.tree
    nt = t is not None and len(t.levels) == 3 and len(t.levels[1]) >= 2 and len(t.levels[2]) >= 2
    return [], bool(nt)


P = ScenarioProperty(PROP, {"levels": (1, 3), "cap": (8, 12), "sprouty": True, "second_run": True, "level_limit_min": 2, "root_lsc_kinds": ["DontStop", "DontStop", "DontStop", "MetaepochLimit", "Scripted"], "gsc_kinds": ["MetaepochLimit", "SingularProblemEvalLimitReached", "FitnessEvalLimitReached", "AllStopped", "NoActiveNonrootDemes", "Never", "Never", "Never"]}, lambda sc: [C07Checker(sc)], _judge, quick=1600, thorough=30000, machine={})
# second profile: three levels, plateau / constant objectives (exact fitness ties between candidates of different
# parents), small level limits that bind - the situation in which a filter can hand a candidate to the wrong parent
P_TIES = ScenarioProperty(
    PROP,
    {
        "levels": (3, 3),
        "families": ["step", "step", "constant"],
        "cap": (8, 12),
        "sprouty": True,
        "level_limit_min": 1,
        "level_limit_max": 3,
        "force_level_limit": True,
        "generators": ["Scripted", "Scripted", "BestPerDeme", "NBC"],
        "sprout_kinds": ["simple", "composed", "composed"],
        "root_lsc_kinds": ["DontStop"],
        "lsc_kinds": ["DontStop", "DontStop", "MetaepochLimit", "Scripted"],
        "gsc_kinds": ["Never", "Never", "MetaepochLimit", "SingularProblemEvalLimitReached"],
    },
    lambda sc: [C07Checker(sc)],
    _judge,
    quick=800,
    thorough=15000,
)


# third tier ("registry"): "each deme is of the engine configured for its level ... custom deme classes registered through
# the config". A sequence of 2-3 trees is built over level-config objects of user-defined config classes (a BaseLevelConfig
# subclass as in docs/custom_demes.rst, a subclass of EALevelConfig), each tree's TreeConfig registering its OWN choice of
# deme class per config class; level-config objects are reused between the trees or built afresh. At every metaepoch
# boundary of every tree each deme's type must be exactly the class THAT tree's config registers for type(level config)
# (the shipped class for shipped config classes) and none of the classes registered only by the other trees.
S_VARIANT = st.integers(0, 2)


@st.composite
def registry_cases(draw):
    nlev = draw(st.integers(1, 3))
    levels = [draw(st.sampled_from(["plain", "plain", "easub", "ea"])) for _ in range(nlev)]
    ntrees = draw(st.integers(2, 3))
    trees = []
    for _ in range(ntrees):
        trees.append(
            {
                "plain": draw(S_VARIANT),
                "easub": draw(S_VARIANT),
                "reuse_configs": draw(st.sampled_from([True, True, True, False])),
                "steps": draw(st.integers(1, 4)),
                "seed": draw(st.integers(0, 2**31 - 1)),
            }
        )
    return {"levels": levels, "trees": trees, "pop": draw(st.integers(3, 6))}


def _registry_classes():
    global _REG
    if _REG is not None:
        return _REG
    from pyhms.config import BaseLevelConfig, EALevelConfig
    from pyhms.demes.ea_deme import EADeme

    from ..harness import RandomSearchDeme

    class PlainConfig(BaseLevelConfig):
        def __init__(self, problem, lsc, pop_size):
            super().__init__(problem, lsc)
            self.pop_size = pop_size

    class SubEAConfig(EALevelConfig):
        pass

    plain = [type(f"PlainDeme{i}", (RandomSearchDeme,), {}) for i in range(3)]
    easub = [type(f"SubEADeme{i}", (EADeme,), {}) for i in range(3)]
    _REG = (PlainConfig, SubEAConfig, plain, easub)
    return _REG


_REG = None


def check_registry(case):
    import numpy as np
    from pyhms.config import EALevelConfig, TreeConfig
    from pyhms.core.problem import FunctionProblem
    from pyhms.demes.ea_deme import EADeme
    from pyhms.sprout import get_simple_sprout
    from pyhms.stop_conditions import DontStop, MetaepochLimit
    from pyhms.tree import DemeTree

    PlainConfig, SubEAConfig, plain, easub = _registry_classes()
    box = np.array([[-5.0, 5.0]] * 2)
    problem = FunctionProblem(lambda x: float(np.sum(np.asarray(x) ** 2)), bounds=box, maximize=False)

    def make_level(kind):
        if kind == "plain":
            return PlainConfig(problem, DontStop(), case["pop"])
        cls = SubEAConfig if kind == "easub" else EALevelConfig
        return cls(pop_size=case["pop"], problem=problem, lsc=DontStop(), generations=1, mutation_std=0.5, sample_std_dev=0.3)

    vs, info = [], {"nontrivial": False, "labels": []}
    shared = [make_level(k) for k in case["levels"]]
    prev = None
    for ti, t in enumerate(case["trees"]):
        levels = shared if t["reuse_configs"] else [make_level(k) for k in case["levels"]]
        registry = {PlainConfig: plain[t["plain"]], SubEAConfig: easub[t["easub"]]}
        want = {"plain": plain[t["plain"]], "easub": easub[t["easub"]], "ea": EADeme}
        changed = prev is not None and any(prev[k] is not want[k] for k in case["levels"])
        if changed and t["reuse_configs"]:
            info["labels"].append("registry_changed_over_reused_config_objects")
            info["nontrivial"] = True
        prev = want
        cfg = TreeConfig(
            levels, MetaepochLimit(t["steps"]), get_simple_sprout(1e-9, level_limit=2),
            options={"random_seed": t["seed"]}, config_class_to_deme_class=registry,
        )
        tree = DemeTree(cfg)
        for step in range(t["steps"] + 1):
            for lvl, deme in tree.all_demes:
                exp = want[case["levels"][lvl]]
                others = [c for c in plain + easub if c is not exp]
                if not isinstance(deme, exp) or isinstance(deme, tuple(others)):
                    vs.append(Violation(PROP, "C07/registry/deme-class-not-the-one-this-tree-registers",
                        f"tree #{ti + 1} of the sequence (level-config objects {'reused from the earlier tree' if t['reuse_configs'] and ti else 'fresh'}), metaepoch {tree.metaepoch_count}: deme {deme.id!r} on level {lvl} is a {type(deme).__name__}, this tree's config maps {type(levels[lvl]).__name__} to {exp.__name__}"))
            if vs:
                return vs, info
            if step < t["steps"]:
                tree.run_step()
        if len(tree.all_demes) > 1:
            info["labels"].append("registry_tree_sprouted")
    return vs, info


def _registry_shard(tier, seed, shard, nshards, tally, scale):
    n = max(3, int({"quick": 1200, "thorough": 30000}[tier] * scale / nshards))

    def body(case):
        vs, info = check_registry(case)
        for lb in info["labels"]:
            tally.label(lb)
        tally.add_case(case, info["nontrivial"], sample=case)
        return vs

    return hyp_drive(PROP, registry_cases(), body, tally=tally, max_examples=n, seed=shard_seed(seed, shard, 41), kind="registry")


def run_shard(tier, seed, shard, nshards, tally, scale=1.0):
    fs = P.run_shard(tier, seed, shard, nshards, tally, scale)
    fs += P_TIES.run_shard(tier, seed, shard, nshards, tally, scale, salt=23)
    fs += _registry_shard(tier, seed, shard, nshards, tally, scale)
    return fs


def replay(case, kind=""):
    if kind == "registry" or (isinstance(case, dict) and "trees" in case):
        return check_registry(case)[0]
    return P.replay(case, kind)
