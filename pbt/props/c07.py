"""C07 — the demes always form a well-formed tree; sprout seeds come from the parent."""
from ..checkers import C07Checker
from ..propbase import ScenarioProperty

PROP = "C07"
RULE = (
    "generated complete configurations of height 1-3 (custom deme class registered through the config included, both shipped "
    "mechanisms and user-composed ones) run with DemeTree.run(); at every metaepoch boundary: one root 'root', every other deme "
    "in exactly one children list one level up and in levels[k], unique ids, class mapped from the level's config, nothing below "
    "the last level, started_at consistent; at every sprouting round each returned seed is bit-equal to a member of the parent's "
    "population snapshot (local-method generator: or the best of a just-finished parent), each new child's seed is one the "
    "mechanism returned for its parent, SEA/DE/SHADE children contain the seed in their initial population. Non-trivial = height "
    "3 reached with >=2 demes on level 1 and >=2 on level 2; distinct = distinct scenario digests."
)
ASSUMPTIONS = ["sprouting rounds are observed through a pass-through wrapper around the configured sprout mechanism"]


def _judge(run):
    t = run.tree
    nt = t is not None and len(t.levels) == 3 and len(t.levels[1]) >= 2 and len(t.levels[2]) >= 2
    return [], bool(nt)


P = ScenarioProperty(PROP, {"levels": (1, 3), "cap": (8, 12), "sprouty": True, "second_run": True, "level_limit_min": 2, "root_lsc_kinds": ["DontStop", "DontStop", "DontStop", "MetaepochLimit", "Scripted"], "gsc_kinds": ["MetaepochLimit", "SingularProblemEvalLimitReached", "FitnessEvalLimitReached", "AllStopped", "NoActiveNonrootDemes", "Never", "Never", "Never"]}, lambda sc: [C07Checker(sc)], _judge, quick=1600, thorough=30000, machine={})
# second profile: three levels, plateau / constant objectives (exact fitness ties between candidates of different
# parents), small level limits that bind - the situation in which a filter can hand a candidate to the wrong parent
P_TIES = ScenarioProperty(
    PROP,
    {
        "levels": (3, 3),
        "families": ["step", "step", "constant"],
        "cap": (8, 12),
        "sprouty": True,
        "level_limit_min": 1,
        "level_limit_max": 3,
        "force_level_limit": True,
        "generators": ["Scripted", "Scripted", "BestPerDeme", "NBC"],
        "sprout_kinds": ["simple", "composed", "composed"],
        "root_lsc_kinds": ["DontStop"],
        "lsc_kinds": ["DontStop", "DontStop", "MetaepochLimit", "Scripted"],
        "gsc_kinds": ["Never", "Never", "MetaepochLimit", "SingularProblemEvalLimitReached"],
    },
    lambda sc: [C07Checker(sc)],
    _judge,
    quick=800,
    thorough=15000,
)


def run_shard(tier, seed, shard, nshards, tally, scale=1.0):
    fs = P.run_shard(tier, seed, shard, nshards, tally, scale)
    fs += P_TIES.run_shard(tier, seed, shard, nshards, tally, scale, salt=23)
    return fs


replay = P.replay
