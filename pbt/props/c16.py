"""C16 — problem wrappers are transparent and their counters follow simple laws (stateful, model-based)."""
from __future__ import annotations

import itertools
import math

import numpy as np
from hypothesis import strategies as st
from hypothesis.stateful import RuleBasedStateMachine, initialize, invariant, rule

from ..common import Tally, Violation, shard_seed
from ..driver import Collector, Failure, machine_drive

PROP = "C16"
RULE = (
    "Hypothesis rule-based state machine: @initialize draws direction and a wrapper stack of depth 0-4 over {counting, "
    "cutoff(N in 1..6), precision(optimum, eps), stats}; rules evaluate(x) (values steered inside / outside / onto the edge of "
    "the precision band), compare(a,b), read bounds / direction, unwrap, ask SingularProblemPrecisionReached; after every rule "
    "the real stack is compared with a reference model of every layer (returned value, objective invoked or not, every counter, "
    "ETA, sticky flag); one stack in four sits on FunctionProblem(use_cache=True), where the objective may be spared for a genome "
    "seen before (values, counters and flags as without cache; objective invocations <= forwarded calls). Additionally all 341 "
    "stack shapes x 2 directions x cache on/off are enumerated with a fixed 12-call script every run. "
    "Non-trivial = a sequence on a stack of depth >=2 that goes past a cutoff and hits the precision band at least twice; "
    "distinct = distinct (stack, operation sequence) digests."
)
ASSUMPTIONS = ["objective values are finite or +/-inf (no NaN: worse_than draws a coin for NaN pairs by design)", "StatsGatheringProblem's timing values are not compared, only their number"]

KINDS = ["count", "cutoff", "precision", "stats"]


# -- reference model ---------------------------------------------------------------------------------


class LayerModel:
    def __init__(self, spec):
        self.kind = spec["kind"]
        self.N = spec.get("N")
        self.opt = spec.get("opt")
        self.eps = spec.get("eps")
        self.count = 0
        self.eta = math.inf
        self.hit = False
        self.received = 0


class StackModel:
    """layers[0] is the innermost wrapper (applied first), layers[-1] the outermost"""

    def __init__(self, specs, maximize, cache=False):
        self.layers = [LayerModel(s) for s in specs]
        self.maximize = maximize
        self.objective_calls = 0
        self.cache = bool(cache)  # FunctionProblem(use_cache=True): the objective may be spared for a genome seen before

    def evaluate(self, v: float) -> float:
        def go(i: int) -> float:
            if i < 0:
                self.objective_calls += 1
                return v
            ly = self.layers[i]
            ly.received += 1
            if ly.kind == "cutoff" and ly.count >= ly.N:
                return -math.inf if self.maximize else math.inf
            r = go(i - 1)
            ly.count += 1
            if ly.kind == "precision" and not ly.hit and abs(r - ly.opt) <= ly.eps:
                ly.eta = ly.count
                ly.hit = True
            return r

        return go(len(self.layers) - 1)


# -- real stack --------------------------------------------------------------------------------------


def build_real(specs, maximize, log, cache=False):
    from pyhms.core.problem import EvalCountingProblem, EvalCutoffProblem, FunctionProblem, PrecisionCutoffProblem, StatsGatheringProblem

    bounds = np.array([[-10.0, 10.0], [-3.0, 7.5]])

    def fun(x):
        log.append(float(x[0]))
        return float(x[0])

    p = FunctionProblem(fun, bounds=bounds, maximize=maximize, use_cache=True) if cache else FunctionProblem(fun, bounds=bounds, maximize=maximize)
    inner = p
    layers = []
    for s in specs:
        if s["kind"] == "count":
            p = EvalCountingProblem(p)
        elif s["kind"] == "cutoff":
            p = EvalCutoffProblem(p, s["N"])
        elif s["kind"] == "precision":
            p = PrecisionCutoffProblem(p, s["opt"], s["eps"])
        else:
            p = StatsGatheringProblem(p)
        layers.append(p)
    return p, inner, layers, bounds


def compare_state(specs, model: StackModel, layers, log, where: str) -> list[Violation]:
    vs = []

    def fail(sub, detail):
        vs.append(Violation(PROP, f"C16/{sub}", f"{where}: {detail} (stack innermost->outermost: {[_fmt(s) for s in specs]}, maximize={model.maximize})"))

    if model.cache:
        # with the opt-in cache the objective is invoked at most once per forwarded call and at least once per distinct genome
        if len(log) > model.objective_calls or (model.objective_calls > 0 and not log):
            fail("objective-invocations/cache", f"objective invoked {len(log)} times for {model.objective_calls} forwarded calls (cache on)")
    elif len(log) != model.objective_calls:
        fail("objective-invocations", f"objective invoked {len(log)} times, model says {model.objective_calls}")
    for i, (s, m, r) in enumerate(zip(specs, model.layers, layers)):
        got = r.n_evaluations
        if got != m.count:
            fail(f"counter/{s['kind']}", f"layer {i} ({_fmt(s)}) reports n_evaluations={got}, it forwarded {m.count} of {m.received} calls")
        if s["kind"] == "stats" and len(r.durations) != m.count:
            fail("stats-durations", f"layer {i} recorded {len(r.durations)} durations for {m.count} evaluations")
        if s["kind"] == "precision":
            if bool(r.hit_precision) != m.hit:
                fail("precision-flag", f"layer {i} hit_precision={r.hit_precision}, model says {m.hit}")
            if r.ETA != m.eta:
                fail("precision-eta", f"layer {i} ETA={r.ETA}, model says {m.eta}")
    return vs


def _fmt(s):
    if s["kind"] == "cutoff":
        return f"cutoff({s['N']})"
    if s["kind"] == "precision":
        return f"precision({s['opt']},{s['eps']})"
    return s["kind"]


class _FakeTree:
    """stands in for the tree a global stop condition is called with (the shipped precision condition ignores it)"""


_FAKE_TREE = _FakeTree()
_GSC_CACHE: dict = {}


def apply_op(op, specs, model, real, inner, layers, bounds, log, maximize) -> list[Violation]:
    from pyhms.core.problem import get_function_problem
    from pyhms.stop_conditions import SingularProblemPrecisionReached

    vs = []
    where = f"after {op}"

    def fail(sub, detail):
        vs.append(Violation(PROP, f"C16/{sub}", f"{where}: {detail} (stack innermost->outermost: {[_fmt(s) for s in specs]}, maximize={maximize})"))

    k = op["op"]
    if k == "evaluate":
        v = float(op["v"])
        n0 = len(log)
        want = model.evaluate(v)
        got = real.evaluate(np.array([v, 0.0]))
        if not (got == want):
            sub = "sentinel" if math.isinf(want) or (isinstance(got, float) and math.isinf(got)) else "value"
            fail(f"evaluate-{sub}", f"evaluate({v}) returned {got!r}, expected {want!r}")
        vs += compare_state(specs, model, layers, log, where)
    elif k == "compare":
        a, b = float(op["a"]), float(op["b"])
        want = (a < b) if maximize else (a > b)
        got = real.worse_than(a, b)
        if bool(got) != want:
            fail("worse-than", f"worse_than({a},{b}) = {got}, innermost direction says {want}")
    elif k == "bounds":
        if not np.array_equal(np.asarray(real.bounds), bounds):
            fail("bounds", f"bounds through the stack are {real.bounds!r}")
    elif k == "direction":
        if bool(real.maximize) != maximize:
            fail("direction", f"maximize through the stack is {real.maximize}")
    elif k == "unwrap":
        if get_function_problem(real) is not inner:
            fail("unwrap", "get_function_problem did not return the innermost problem")
    elif k == "gsc":
        # one condition object per precision layer, consulted repeatedly with the same tree object - as a run does
        for s, m, r in zip(specs, model.layers, layers):
            if s["kind"] == "precision":
                cond = _GSC_CACHE.get(id(r))
                if cond is None or cond[0] is not r:
                    cond = (r, SingularProblemPrecisionReached(r))
                    _GSC_CACHE[id(r)] = cond
                got = bool(cond[1](_FAKE_TREE))
                if got != m.hit:
                    fail("precision-gsc", f"SingularProblemPrecisionReached says {got}, model says {m.hit}")
        vs += compare_state(specs, model, layers, log, where)  # consulting a stop condition must not change the wrappers
    return vs


def run_sequence(case) -> tuple[list[Violation], dict]:
    specs, maximize, ops = case["stack"], bool(case["maximize"]), case["ops"]
    log: list[float] = []
    model = StackModel(specs, maximize, case.get("cache", False))
    real, inner, layers, bounds = build_real(specs, maximize, log, case.get("cache", False))
    vs = []
    for op in ops:
        vs += apply_op(op, specs, model, real, inner, layers, bounds, log, maximize)
        if vs:
            break
    past_cutoff = any(m.kind == "cutoff" and m.received > m.N for m in model.layers)
    hits = 0
    for m in model.layers:
        if m.kind == "precision":
            hits = max(hits, sum(1 for op in ops if op["op"] == "evaluate" and abs(op["v"] - m.opt) <= m.eps))
    info = {"nontrivial": len(specs) >= 2 and past_cutoff and hits >= 2, "past_cutoff": past_cutoff, "hits": hits}
    return vs, info


# -- strategies --------------------------------------------------------------------------------------

S_SPEC = st.one_of(
    st.just({"kind": "count"}),
    st.just({"kind": "stats"}),
    st.builds(lambda n: {"kind": "cutoff", "N": n}, st.integers(1, 6)),
    st.builds(lambda o, e: {"kind": "precision", "opt": o, "eps": e}, st.sampled_from([0.0, 1.5, -2.0]), st.sampled_from([0.0, 1e-9, 0.25, 1.0])),
)
S_VALUE = st.one_of(
    st.sampled_from([0.0, 1.5, -2.0, 0.25, -0.25, 1.0, 1.75, 1.25, 2.5, -3.0, 1e-9, -1e-9, 0.2500000001, 5.0, float("inf"), float("-inf")]),
    st.floats(-6, 6, allow_nan=False),
)


def make_machine(coll: Collector, tally: Tally):
    class WrapperMachine(RuleBasedStateMachine):
        def __init__(self):
            super().__init__()
            self.ready = False
            self.pending: list[Violation] = []

        @initialize(specs=st.one_of(st.lists(S_SPEC, min_size=0, max_size=4), st.lists(S_SPEC, min_size=2, max_size=4)), maximize=st.booleans(), cache=st.sampled_from([False, False, False, True]))
        def setup(self, specs, maximize, cache):
            if coll.quiet():
                return
            self.case = {"stack": specs, "maximize": maximize, "ops": [], "cache": cache}
            self.log = []
            self.model = StackModel(specs, maximize, cache)
            self.real, self.inner, self.layers, self.bounds = build_real(specs, maximize, self.log, cache)
            self.ready = True

        def _do(self, op):
            if coll.quiet() or not self.ready:
                return
            self.case["ops"].append(op)
            c = self.case
            self.pending += apply_op(op, c["stack"], self.model, self.real, self.inner, self.layers, self.bounds, self.log, c["maximize"])

        @rule(v=S_VALUE)
        def evaluate(self, v):
            self._do({"op": "evaluate", "v": v})

        @rule(t=st.sampled_from([0.0, 0.5, 1.0, -1.0, -0.5, 1.0000001, 2.0]), which=st.integers(0, 3))
        def evaluate_near_optimum(self, t, which):
            """a value steered relative to the band of one of the stack's precision layers (on / inside / just outside)"""
            if coll.quiet() or not self.ready:
                return
            prec = [s_ for s_ in self.case["stack"] if s_["kind"] == "precision"]
            if not prec:
                return
            s_ = prec[which % len(prec)]
            self._do({"op": "evaluate", "v": s_["opt"] + t * s_["eps"]})

        @rule(a=S_VALUE, b=S_VALUE)
        def compare(self, a, b):
            self._do({"op": "compare", "a": a, "b": b})

        @rule()
        def read_bounds(self):
            self._do({"op": "bounds"})

        @rule()
        def read_direction(self):
            self._do({"op": "direction"})

        @rule()
        def unwrap(self):
            self._do({"op": "unwrap"})

        @rule()
        def ask_gsc(self):
            self._do({"op": "gsc"})

        @invariant()
        def agrees_with_model(self):
            if coll.quiet() or not self.ready:
                return
            if self.pending:
                vs, self.pending = self.pending, []
                coll.handle(self.case, vs)

        def teardown(self):
            if coll.quiet() or not self.ready:
                return
            _, info = run_sequence(self.case) if False else ([], self._info())
            tally.label("depth=%d" % len(self.case["stack"]))
            if info["past_cutoff"]:
                tally.label("went_past_cutoff")
            if info["hits"] >= 2:
                tally.label("precision_hit_twice")
            if self.case.get("cache"):
                tally.label("innermost_problem_caches")
            tally.add_case(self.case, info["nontrivial"], sample={"stack": [_fmt(s) for s in self.case["stack"]], "maximize": self.case["maximize"], "ops": self.case["ops"][:12]})
            tally.count("steps", len(self.case["ops"]))

        def _info(self):
            past = any(m.kind == "cutoff" and m.received > m.N for m in self.model.layers)
            hits = 0
            for m in self.model.layers:
                if m.kind == "precision":
                    hits = max(hits, sum(1 for op in self.case["ops"] if op["op"] == "evaluate" and abs(op["v"] - m.opt) <= m.eps))
            return {"nontrivial": len(self.case["stack"]) >= 2 and past and hits >= 2, "past_cutoff": past, "hits": hits}

    return WrapperMachine


SCRIPT = [0.0, 0.3, 1.5, 9.0, 0.25, -2.0, 0.0, 1.5, 4.0, -0.25, 0.2, 0.0]


def enumerate_shapes(tally: Tally, coll: Collector):
    """all stacks of depth 0..4 over the four kinds (cutoff N=3, precision(0, 0.25)), both directions, fixed script"""
    spec_of = {"count": {"kind": "count"}, "stats": {"kind": "stats"}, "cutoff": {"kind": "cutoff", "N": 3}, "precision": {"kind": "precision", "opt": 0.0, "eps": 0.25}}
    n = 0
    for depth in range(0, 5):
        for combo in itertools.product(KINDS, repeat=depth):
            for maximize, cache in ((False, False), (True, False), (False, True), (True, True)):
                ops = []
                for v in SCRIPT:
                    ops.append({"op": "evaluate", "v": v})
                ops += [{"op": "compare", "a": 1.0, "b": 2.0}, {"op": "bounds"}, {"op": "direction"}, {"op": "unwrap"}, {"op": "gsc"}]
                case = {"stack": [dict(spec_of[k]) for k in combo], "maximize": maximize, "ops": ops, "cache": cache}
                vs, info = run_sequence(case)
                n += 1
                tally.add_case(case, info["nontrivial"], sample={"stack": list(combo), "maximize": maximize, "ops": "fixed script"})
                for v in vs:
                    if v.signature in coll.known:
                        tally.known_hits[v.signature] = tally.known_hits.get(v.signature, 0) + 1
                    elif v.signature not in coll.best:
                        coll.best[v.signature] = Failure(PROP, v.signature, case, [v], "sequence")
    tally.count("enumerated_stack_shapes_x_directions", n)


def run_shard(tier, seed, shard, nshards, tally: Tally, scale=1.0):
    n = max(5, int({"quick": 3200, "thorough": 100000}[tier] * scale / nshards))
    steps = {"quick": 30, "thorough": 50}[tier]
    fs = []
    if shard == 0:
        coll = Collector(PROP, tally, "sequence", 0)
        enumerate_shapes(tally, coll)
        fs += list(coll.best.values())
    fs += machine_drive(PROP, make_machine, tally=tally, max_examples=n, steps=steps, seed=shard_seed(seed, shard), kind="sequence")
    return fs


def replay(case, kind=""):
    return run_sequence(case)[0]
