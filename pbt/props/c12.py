"""C12 — elitist engines never lose ground; population size is constant."""
from ..checkers import C12Checker
from ..propbase import ScenarioProperty

PROP = "C12"
RULE = (
    "generated configurations with SEA/SEAWithCrossover/GAStyleSEA/SEAWithAdaptiveMutation (k_elites>=1), DE, SHADE on "
    "plateau/tie-heavy and smooth objectives in both directions (all engines for the size clause); over ALL consecutive "
    "generation pairs of every deme (inside and across metaepochs): best fitness not worse, DE/SHADE sorted fitness vectors "
    "dominate component-wise, every generation has the configured population size (CMA-ES: lambda). Non-trivial = a deme with "
    ">=3 generations and at least one strict improvement; distinct = distinct scenario digests."
)
ASSUMPTIONS = ["comparison uses the problem's own worse_than", "MWEA is non-elitist by design and only size-checked"]


def _judge(run):
    ch = run.checkers[0]
    return [], bool(ch.long_demes)


P = ScenarioProperty(
    PROP,
    {"families": ["step", "constant", "sphere", "rastrigin", "abssum", "twobasin", "linear", "offset", "offset"], "hibernation": 0.2, "pmut_low": True, "small_pops": True, "allow_cache": True},
    lambda sc: [C12Checker(sc)],
    _judge,
    quick=1600,
    thorough=30000, keep_on_crash=True,
)
run_shard = P.run_shard
replay = P.replay
