"""C01 — the objective is never evaluated outside the declared box bounds."""
from ..checkers import C01Checker
from ..propbase import ScenarioProperty

PROP = "C01"
RULE = (
    "scenario tier: generated complete configurations (box incl. decimal/offset/tiny/huge, objective family, direction, 1-3 "
    "levels with any admissible engine, stop conditions, sprout mechanism, wrappers, seed, hibernation) run with DemeTree.run(); "
    "every objective invocation, every stored genome, every sprout seed is tested for lower<=x<=upper exactly. "
    "operator tier: each variation operator / sampler called directly on populations sitting on faces and corners; "
    "minimize tier: OptimizeResult.x and every call of fun. Non-trivial = at least one evaluated point has a coordinate "
    "within 1e-9*range of a face (scenario tier) or the un-repaired donor left the box / a parent sat on a face (operator tier); "
    "distinct = distinct case digests."
)
ASSUMPTIONS = [
    "objective is recorded on a copy of x taken at call time",
    "box side ratios <= 8 and sample_std_dev <= min_side/3 (sample_normal's isotropic rejection sampling needs it to terminate)",
    "cma / scipy / qmc are exercised as installed, not modelled",
]


def _judge(run):
    ch = run.checkers[0]
    labels = []
    if ch.near_face:
        labels.append("evaluated_near_face")
    if ch.on_face:
        labels.append("evaluated_on_face")
    return labels, ch.near_face > 0


P = ScenarioProperty(PROP, {"families": ["linear", "linear", "sphere", "rastrigin", "step", "abssum", "twobasin", "constant", "infwall", "infwall", "offset"], "wide_sampling": True, "allow_cache": True}, lambda sc: [C01Checker(sc)], _judge, quick=1600, thorough=40000, keep_on_crash=True)


def run_shard(tier, seed, shard, nshards, tally, scale=1.0):
    from . import c01_ops

    fs = P.run_shard(tier, seed, shard, nshards, tally, scale)
    fs += c01_ops.run_shard(tier, seed, shard, nshards, tally, scale)
    return fs


def replay(case, kind=""):
    if kind in ("operator", "minimize"):
        from . import c01_ops

        return c01_ops.replay(case, kind)
    return P.replay(case, kind)
