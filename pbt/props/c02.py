"""C02 — stored individuals carry the true fitness of their genome; history is immutable."""
from ..checkers import C02Checker
from ..propbase import ScenarioProperty

PROP = "C02"
RULE = (
    "generated complete configurations run with DemeTree.run(); at every metaepoch boundary every individual newly reachable "
    "through any deme's history, the sprout seeds and the tree's best is re-evaluated with a pure copy of the objective "
    "(fitness must be bit-equal, or the +/-inf sentinel once that level's cutoff wrapper is exhausted) and the byte digest of "
    "every recorded generation is compared with the digest taken when it first appeared; plus minimize(): f(x)==fun. "
    "Non-trivial = at least 2 metaepochs recorded and at least one individual carried over unchanged between consecutive "
    "generations; distinct = distinct scenario digests."
)
ASSUMPTIONS = [
    "objective deterministic and finite on the box; re-evaluated on copies",
    "sentinel fitness is accepted for individuals first seen at a boundary at which the level's cutoff wrapper has forwarded N calls",
]


def _judge(run):
    ch = run.checkers[0]
    labels = []
    if ch.local_iters >= 2:
        labels.append("local_deme_iterated>=2")
    if ch.sentinels:
        labels.append("sentinel_reached")
    if ch.carried:
        labels.append("carried_over")
    t = run.tree
    return labels, bool(t is not None and t.metaepoch_count >= 2 and ch.carried > 0)


P = ScenarioProperty(PROP, {"local_weight": 4, "allow_cache": True}, lambda sc: [C02Checker(sc)], _judge, quick=1600, thorough=30000)


def run_shard(tier, seed, shard, nshards, tally, scale=1.0):
    from . import minimize_tier

    fs = P.run_shard(tier, seed, shard, nshards, tally, scale)
    fs += minimize_tier.run_shard(PROP, tier, seed, shard, nshards, tally, scale)
    return fs


def replay(case, kind=""):
    if kind == "minimize":
        from . import minimize_tier

        return minimize_tier.replay(PROP, case)
    return P.replay(case, kind)
