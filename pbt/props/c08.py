"""C08 — the level limit on simultaneously active demes is never exceeded."""
from ..checkers import C08Checker
from ..propbase import ScenarioProperty

PROP = "C08"
RULE = (
    "generated configurations biased to small level limits (1-3), generators yielding several candidates per parent, several "
    "parents per level (3 levels), scripted LSCs freeing slots, tie-heavy objectives, both directions; at EVERY consultation of "
    "the GSC the census of active demes per non-root level must be <= L, and around every sprouting round the seeds returned / "
    "demes created for a level must be <= L - active there before the round. Non-trivial = a round in which the candidates "
    "entering LevelLimit outnumbered the free slots (limit binding); distinct = distinct scenario digests."
)
ASSUMPTIONS = ["only configurations whose mechanism contains a LevelLimit filter are judged"]


def _judge(run):
    ch = run.checkers[0]
    labels = []
    if ch.L is None:
        labels.append("no_level_limit_configured")
    if ch.binding:
        labels.append("limit_binding")
    if ch.multi_parent_binding:
        labels.append("limit_binding_several_parents")
    return labels, bool(ch.binding)


P = ScenarioProperty(
    PROP,
    {
        "levels": (2, 3),
        "level_limit_max": 3,
        "force_level_limit": True, "second_run": True,
        "families": ["step", "constant", "sphere", "rastrigin", "twobasin"],
        "generators": ["NBC", "Scripted", "Scripted", "Scripted", "BestPerDeme"],
        "sprout_kinds": ["simple", "nbc", "composed", "composed", "composed"],
        "cap": (7, 12),
    },
    lambda sc: [C08Checker(sc)],
    _judge,
    quick=3200,
    thorough=60000, machine={"budget": (800, 16000), "profile": {"levels": (3, 3), "level_limit_max": 2}},
    run_kwargs={"observe_chain": True},
)
run_shard = P.run_shard
replay = P.replay
