"""minimize() end to end: shared by C01-C05 (each property judges its own clause)."""
from __future__ import annotations

import numpy as np
from hypothesis import strategies as st

from ..common import Tally, Violation, shard_seed
from ..driver import hyp_drive
from ..scenario import Objective, boxes

BUDGET = {"quick": 320, "thorough": 5000}


class LoggedFun:
    def __init__(self, obj):
        self.obj = obj
        self.xs = []
        self.vs = []

    def __call__(self, x):
        xc = np.array(x, dtype=float, copy=True)
        v = self.obj(xc)
        self.xs.append(xc)
        self.vs.append(v)
        return v


@st.composite
def cases(draw):
    dim = draw(st.sampled_from([2, 2, 3, 4]))
    box = draw(boxes(dim))
    fam = draw(st.sampled_from(["sphere", "rastrigin", "step", "linear", "abssum", "twobasin", "constant"]))
    center = [lo + draw(st.sampled_from([0.5, 0.25, 0.8, 0.0, 1.0])) * (hi - lo) for lo, hi in box]
    center = [min(max(c, lo), hi) for c, (lo, hi) in zip(center, box)]
    case = {"dim": dim, "box": box, "family": fam, "center": center, "seed": draw(st.integers(0, 2**31 - 1))}
    mode = draw(st.sampled_from(["maxfun", "maxfun", "maxfun", "maxiter"]))
    case["mode"] = mode
    if mode == "maxfun":
        n1 = draw(st.one_of(st.integers(1, 40), st.integers(1, 400), st.integers(100, 1500)))
        case["maxfun"] = n1
        case["maxfun2"] = n1 + draw(st.one_of(st.integers(1, 30), st.integers(1, 600)))
    else:
        case["maxiter"] = draw(st.integers(1, 8))
    case["bounds_as_list"] = draw(st.booleans())
    return case


def _run(case, maxfun=None, maxiter=None):
    from pyhms import minimize

    box = case["box"]
    lo = [b[0] for b in box]
    hi = [b[1] for b in box]
    obj = Objective(case["family"], case["center"], lo, hi, 1.0, 1.0, [1.0, -1.0, 0.5, 1.0, -1.0][: case["dim"]])
    fun = LoggedFun(obj)
    bounds = [tuple(b) for b in box] if case.get("bounds_as_list") else np.array(box, dtype=float)
    res = minimize(fun, bounds, maxfun=maxfun, maxiter=maxiter, seed=case["seed"])
    return res, fun, obj


def check(prop: str, case: dict):
    """returns (violations, nontrivial, labels)"""
    vs: list[Violation] = []
    labels = ["minimize:" + case["mode"]]
    lo = np.array([b[0] for b in case["box"]])
    hi = np.array([b[1] for b in case["box"]])

    def fail(sub, detail):
        vs.append(Violation(prop, f"{prop}/minimize/{sub}", detail))

    if case["mode"] == "maxiter":
        res, fun, obj = _run(case, maxiter=case["maxiter"])
        n = case["maxiter"]
        if prop == "C05" and res.nit != n:
            fail("nit-not-maxiter", f"minimize(maxiter={n}).nit == {res.nit}")
        if prop == "C03" and res.nfev != len(fun.vs):
            fail("nfev-vs-calls", f"minimize(maxiter={n}): nfev={res.nfev} but fun was called {len(fun.vs)} times")
        nontrivial = len(fun.vs) > 0
        res2 = fun2 = None
    else:
        n1, n2 = case["maxfun"], case["maxfun2"]
        res, fun, obj = _run(case, maxfun=n1)
        if prop == "C03":
            if len(fun.vs) > n1:
                fail("budget-exceeded", f"minimize(maxfun={n1}) called fun {len(fun.vs)} times")
            if res.nfev != len(fun.vs):
                fail("nfev-vs-calls", f"minimize(maxfun={n1}, seed={case['seed']}): nfev={res.nfev} but fun was called {len(fun.vs)} times")
        nontrivial = len(fun.vs) >= n1
        if nontrivial:
            labels.append("minimize:budget_exhausted")
        res2 = fun2 = None
        if prop == "C04":
            res2, fun2, _ = _run(case, maxfun=n2)
            k = len(fun.vs)
            same = len(fun2.vs) >= k and all(np.array_equal(a, b) for a, b in zip(fun.xs, fun2.xs[:k]))
            if not same:
                first = next((i for i, (a, b) in enumerate(zip(fun.xs, fun2.xs)) if not np.array_equal(a, b)), min(len(fun.xs), len(fun2.xs)))
                fail("budget-not-prefix", f"seed={case['seed']}: the {k} evaluations of maxfun={n1} are not a prefix of the {len(fun2.vs)} evaluations of maxfun={n2} (first difference at call {first})")
            if res2.fun > res.fun:
                fail("larger-budget-worse", f"seed={case['seed']}: maxfun={n1} -> fun={res.fun!r}, maxfun={n2} -> fun={res2.fun!r}")
            nontrivial = len(fun2.vs) > len(fun.vs)
    for r, f in ((res, fun), (res2, fun2)):
        if r is None:
            continue
        x = np.asarray(r.x, dtype=float)
        if prop == "C01":
            if not (np.all(x >= lo) and np.all(x <= hi)):
                fail("x-outside", f"minimize returned x={x!r} outside the bounds")
            for xc in f.xs:
                if not (np.all(xc >= lo) and np.all(xc <= hi)):
                    fail("evaluated-outside", f"minimize invoked fun at {xc!r} outside the bounds")
                    break
            d = np.minimum(np.abs(np.array(f.xs) - lo), np.abs(np.array(f.xs) - hi)) if f.xs else np.array([[1.0]])
            nontrivial = bool(np.any(d <= 1e-9 * (hi - lo)))
        if prop == "C02":
            truth = obj(x.copy())
            if r.fun != truth:
                fail("fun-is-not-f-of-x", f"minimize returned fun={r.fun!r} but fun(x)={truth!r} for x={x!r}")
        if prop == "C04":
            if f.vs and r.fun != min(f.vs):
                fail("fun-not-minimum-observed", f"minimize returned fun={r.fun!r} but the smallest value fun ever returned is {min(f.vs)!r}")
            truth = obj(x.copy())
            if r.fun != truth:
                fail("fun-is-not-f-of-x", f"minimize returned fun={r.fun!r} but fun(x)={truth!r}")
    return vs, nontrivial, labels


def run_shard(prop, tier, seed, shard, nshards, tally: Tally, scale=1.0):
    n = max(2, int(BUDGET[tier] * scale / nshards))

    def body(case):
        vs, nt, labels = check(prop, case)
        for lb in labels:
            tally.label(lb)
        tally.add_case({"minimize": case}, nt, sample={"minimize": case})
        tally.count("minimize_cases")
        return vs

    return hyp_drive(prop, cases(), body, tally=tally, max_examples=n, seed=shard_seed(seed, shard, 7), kind="minimize")


def replay(prop, case):
    if "minimize" in case and isinstance(case["minimize"], dict):
        case = case["minimize"]
    return check(prop, case)[0]
