"""C10 — sprout candidates come from the right populations; filters keep the best."""
from __future__ import annotations

import numpy as np
from hypothesis import strategies as st

from ..checkers import C10Checker, spec_deme_limit, spec_generator, spec_level_limit, spec_skip_same, spec_subset
from ..common import Violation
from ..propbase import ScenarioProperty

PROP = "C10"
RULE = (
    "run tier: generated configurations whose mechanism's generator and every filter are wrapped in pass-through observers; "
    "each observed call is judged against a set-valued reference specification (generators: keys = active non-leaf demes, "
    "candidates are members of the current population, BestPerDeme = a maximum; filters: output subset of input, DemeLimit "
    "size == min(limit, available) and no dropped candidate strictly better than a kept one, LevelLimit per level <= free slots, "
    "== free slots for distinct fitness, nothing dropped without need, no dropped strictly better than kept, SkipSameSprout). "
    "direct tier: on the tree reached by the run, the three shipped generators and DemeLimit / LevelLimit / SkipSameSprout are "
    "called with generated candidate dictionaries (members of populations, copies of / points near existing seeds, synthetic "
    "individuals with fitness from a tie-heavy menu incl. +/-inf, several parents per level, both directions, limits 1..6, "
    "random chain orders). Non-trivial = some filter had to choose (input larger than limit / free slots, or a candidate was "
    "removed); distinct = distinct scenario digests."
)
ASSUMPTIONS = [
    "LevelLimit is only called with limit >= the number of demes already active on every level (the state C08 guarantees)",
    "ties are never an alarm: the specification only forbids keeping a strictly worse candidate over a strictly better one",
]

FIT_MENU = [0.0, 1.0, 1.0, 2.0, 3.0, -1.0, 0.5, float("inf"), float("-inf"), 2.0]

S_CAND = st.fixed_dictionaries({"fit": st.integers(0, len(FIT_MENU) - 1), "src": st.sampled_from(["pop", "pop", "seed", "near", "rand", "rand"]), "idx": st.integers(0, 30), "distinct": st.booleans()})
S_PARENT = st.fixed_dictionaries({"pick": st.integers(0, 12), "cands": st.lists(S_CAND, min_size=0, max_size=6)})
S_CALL = st.fixed_dictionaries(
    {"chain": st.lists(st.sampled_from(["DemeLimit", "LevelLimit", "SkipSameSprout"]), min_size=1, max_size=3, unique=True), "deme_limit": st.integers(1, 4), "extra_slots": st.integers(0, 4), "parents": st.lists(S_PARENT, min_size=1, max_size=4), "distinct_fitness": st.booleans()}
)
S_EXTRA = st.lists(S_CALL, min_size=1, max_size=3)


def _direct(run) -> list[Violation]:
    """call generators and filters directly on the tree the run ended with"""
    from pyhms.core.individual import Individual
    from pyhms.sprout import sprout_filters as sf
    from pyhms.sprout import sprout_generators as sg
    from pyhms.sprout.sprout_candidates import DemeCandidates, DemeFeatures

    tree, sc = run.tree, run.sc
    if tree is None:
        return []
    out: list[Violation] = []
    seen = set()
    ch = run.checkers[0]
    mx = "max" if sc["maximize"] else "min"
    problem = run.level_problems[0]
    H = len(tree.levels)
    demes = {d.id: d for _, d in tree.all_demes}

    def fail(sub, detail):
        sig = f"C10/direct/{sub}"
        if sig not in seen:
            seen.add(sig)
            out.append(Violation(PROP, sig, detail))

    # generators -------------------------------------------------------------------------------
    gens = [sg.BestPerDeme(), sg.NBC_Generator(1.0, 1.0), sg.NBC_Generator(0.5, 0.7)]
    if H >= 2:
        gens.append(sg.NBCGeneratorWithLocalMethod(1.0, 1.0))
    for g in gens:
        try:
            res = g(tree)
        except Exception as e:  # noqa: BLE001
            continue  # e.g. NBC on a 1-individual local population: outside the component's documented domain
        r = spec_generator(g, {d.id: list(c.individuals) for d, c in res.items()}, demes, tree, problem)
        if r:
            fail(f"generator/{type(g).__name__}/{r[0]}", r[1])
    # filters ----------------------------------------------------------------------------------
    parents_pool = [d for lvl in tree.levels[:-1] for d in lvl]
    if not parents_pool:
        return out
    box = np.array(sc["box"], dtype=float)
    all_seeds = [ch_._sprout_seed for _, d in tree.all_demes for ch_ in d.children]
    active = [sum(1 for d in lvl if d.is_active) for lvl in tree.levels]
    for call in sc.get("extra") or []:
        cands = {}
        serial = 0
        for p in call["parents"]:
            d = parents_pool[p["pick"] % len(parents_pool)]
            if d in cands:
                continue
            inds = []
            pop = d.current_population
            for c in p["cands"]:
                fit = FIT_MENU[c["fit"]]
                if call["distinct_fitness"]:
                    serial += 1
                    fit = float(serial * 7 % 23) + 0.01 * serial
                if c["src"] == "pop" and pop:
                    src = pop[c["idx"] % len(pop)]
                    g = np.array(src.genome, dtype=float, copy=True)
                elif c["src"] == "seed" and all_seeds:
                    g = np.array(all_seeds[c["idx"] % len(all_seeds)].genome, dtype=float, copy=True)
                elif c["src"] == "near" and all_seeds:
                    g = np.array(all_seeds[c["idx"] % len(all_seeds)].genome, dtype=float, copy=True)
                    g = g * (1 + 1e-9) + 1e-12
                else:
                    t = ((c["idx"] * 0.61803398875) % 1.0 + np.arange(len(box)) * 0.137) % 1.0
                    g = box[:, 0] + t * (box[:, 1] - box[:, 0])
                inds.append(Individual(g, problem=problem, fitness=float(fit)))
            cands[d] = DemeCandidates(individuals=inds, features=DemeFeatures(nbc_mean_distance=0.1))
        level_limit = max(active[1:] + [0]) + call["extra_slots"] if H >= 2 else 1 + call["extra_slots"]
        level_limit = max(1, level_limit)
        for name in call["chain"]:
            before = {d.id: list(c.individuals) for d, c in cands.items()}
            dm = {d.id: d for d in cands}
            if name == "DemeLimit":
                f = sf.DemeLimit(call["deme_limit"])
                cands = f(cands, tree)
            elif name == "LevelLimit":
                f = sf.LevelLimit(level_limit)
                cands = f(cands, tree)
            else:
                f = sf.SkipSameSprout()
                cands = f(cands, tree)
            after = {d.id: list(c.individuals) for d, c in cands.items()}
            msg = spec_subset(before, after)
            if msg:
                fail(f"filter/{name}/adds-candidates", msg)
                break
            if name == "DemeLimit":
                if any(len(v) > call["deme_limit"] for v in before.values()):
                    ch.had_to_choose[f"DemeLimit/{mx}"] = ch.had_to_choose.get(f"DemeLimit/{mx}", 0) + 1
                r = spec_deme_limit(before, after, call["deme_limit"], problem)
            elif name == "LevelLimit":
                levels_of = {did: d.level for did, d in dm.items()}
                per = {}
                for did, inds in before.items():
                    per[levels_of[did] + 1] = per.get(levels_of[did] + 1, 0) + len(inds)
                if any(n > level_limit - active[lv] for lv, n in per.items()):
                    ch.had_to_choose[f"LevelLimit/{mx}"] = ch.had_to_choose.get(f"LevelLimit/{mx}", 0) + 1
                r = spec_level_limit(before, after, levels_of, active, level_limit, problem, H)
            else:
                if any(len(after.get(k, [])) < len(v) for k, v in before.items()):
                    ch.had_to_choose["SkipSameSprout"] = ch.had_to_choose.get("SkipSameSprout", 0) + 1
                r = spec_skip_same(before, after, dm, tree)
            if r:
                fail(f"filter/{name}/{r[0]}/{mx}", f"direct call on the final tree (chain {call['chain']}): {r[1]}")
                break
    return out


def _judge(run):
    ch = run.checkers[0]
    labels = ["had_to_choose:" + k for k in ch.had_to_choose]
    return labels, bool(ch.had_to_choose)


P = ScenarioProperty(
    PROP,
    {
        "levels": (2, 3),
        "mahalanobis": True, "cma_weight": 3,
        "extra": S_EXTRA, "second_run": True,
        "families": ["step", "constant", "sphere", "rastrigin", "twobasin", "linear", "offset"],
        "sprout_kinds": ["simple", "nbc", "composed", "composed", "composed"],
        "level_limit_max": 3,
        "cap": (6, 10),
    },
    lambda sc: [C10Checker(sc)],
    _judge,
    quick=1600,
    thorough=40000,
    run_kwargs={"observe_chain": True},
    post=_direct,
)
run_shard = P.run_shard
replay = P.replay
