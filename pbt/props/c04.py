"""C04 — the reported best is the true best of everything kept, and never gets worse."""
from ..checkers import C04Checker
from ..propbase import ScenarioProperty

PROP = "C04"
RULE = (
    "generated complete configurations in both directions run with DemeTree.run(); at every metaepoch boundary "
    "tree.best_individual / each deme's best_individual is compared with a brute-force scan of all histories (not worse than "
    "any, and one of them), the sequence of best fitness values must be monotone, and without a local-search level it must equal "
    "the best value the objective ever returned; plus minimize(): fun == min of the call log, f(x)==fun, and for budgets N1<N2 "
    "with equal seed the N1 call log is a prefix of the N2 log and fun(N2)<=fun(N1). Non-trivial = the best changed after the "
    "first metaepoch (and, when maximising, >=1 sprout happened) / the larger budget bought extra evaluations; distinct = distinct case digests."
)
ASSUMPTIONS = ["comparison uses the problem's own worse_than", "the local optimiser's unrecorded line-search evaluations are excluded as the statement says"]


def _judge(run):
    ch = run.checkers[0]
    t = run.tree
    sprouts = t is not None and sum(len(l) for l in t.levels[1:]) >= 1
    nt = ch.changes_after_first >= 1 and (sprouts or not run.sc["maximize"])
    return (["best_changed_after_first"] if ch.changes_after_first else []), bool(nt)


from ..scenario import Objective  # noqa: E402

P = ScenarioProperty(PROP, {"observe_intermittently": True, "allow_cache": True, "families": Objective.FAMILIES + ["infpit"]}, lambda sc: [C04Checker(sc)], _judge, quick=1600, thorough=30000, machine={})


def run_shard(tier, seed, shard, nshards, tally, scale=1.0):
    from . import minimize_tier

    fs = P.run_shard(tier, seed, shard, nshards, tally, scale)
    fs += minimize_tier.run_shard(PROP, tier, seed, shard, nshards, tally, scale)
    return fs


def replay(case, kind=""):
    if kind == "minimize":
        from . import minimize_tier

        return minimize_tier.replay(PROP, case)
    return P.replay(case, kind)
