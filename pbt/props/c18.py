"""C18 — hibernation suspends exactly the demes that did not sprout, and never stalls."""
from ..checkers import C18Checker
from ..propbase import ScenarioProperty

PROP = "C18"
RULE = (
    "generated configurations with hibernation on (70%) and off, 2-3 levels, small level limits, LSCs that stop leaves, "
    "metaepoch- and evaluation-based GSCs, NBC_FarEnough over all siblings; an automaton model of the statement is updated from "
    "every observed sprouting round (asleep iff active non-leaf at the start of the round and no seed taken; demes created by the "
    "round awake) and compared with the flags at every boundary; sleeping demes must not run, awake ones must; a metaepoch in "
    "which nothing ran and nothing was evaluated while the GSC was false and a deme was active is a stall. Non-trivial = "
    "hibernation on, >=1 deme fell asleep and >=1 woke up; distinct = distinct scenario digests."
)
ASSUMPTIONS = [
    "a step in which some deme ran but no genome happened to change (no evaluation needed) is not counted as a stall",
    "never-terminating runs are observed as silent steps under the metaepoch cap",
]


def _judge(run):
    ch = run.checkers[0]
    labels = []
    if ch.fell_asleep:
        labels.append("some_deme_fell_asleep")
    if ch.woke_up:
        labels.append("some_deme_woke_up")
    if ch.intermediate_seen:
        labels.append("intermediate_deme_present")
    return labels, bool(ch.hib_on and ch.fell_asleep and ch.woke_up)


P = ScenarioProperty(
    PROP,
    {"levels": (2, 3), "hibernation": 0.7, "level_limit_max": 3, "cap": (8, 12), "sprouty": True, "root_lsc_kinds": ["DontStop", "DontStop", "DontStop", "MetaepochLimit", "AllChildrenStopped"], "gsc_kinds": ["MetaepochLimit", "MetaepochLimit", "SingularProblemEvalLimitReached", "SingularProblemEvalLimitReached", "FitnessEvalLimitReached", "AllStopped", "NoActiveNonrootDemes"]},
    lambda sc: [C18Checker(sc)],
    _judge,
    quick=3200,
    thorough=60000, machine={"profile": {"hibernation": 0.8}, "budget": (800, 16000)},
)
run_shard = P.run_shard
replay = P.replay
