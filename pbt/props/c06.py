"""C06 — deme lifecycle: one metaepoch per step while active; stopping is final."""
from ..checkers import C06Checker
from ..propbase import ScenarioProperty

PROP = "C06"
RULE = (
    "generated complete configurations (shipped and scripted user-defined LSCs, hibernation on/off, all engines) run with "
    "DemeTree.run(); at every metaepoch boundary the per-deme snapshot (active, hibernating, history length and digest, "
    "evaluation counter) is compared with the previous one: active non-hibernating demes advance by exactly one metaepoch, "
    "all others are untouched and evaluate nothing, new demes have not run yet and start at the current metaepoch, a deme turns "
    "inactive iff its LSC observer or its own GSC consultation returned true / local search ran / CMA-ES stop() is non-empty, "
    "inactive never becomes active. Non-trivial = a deme was stopped by its LSC while a sibling stayed active and a later sprout "
    "happened on that level; distinct = distinct scenario digests."
)
ASSUMPTIONS = ["LSC verdicts are observed through a pass-through wrapper handed to the level config"]


def _judge(run):
    ch = run.checkers[0]
    return (["lsc_stop_with_active_sibling"] if ch.lsc_stops_level else []), bool(ch.nontrivial)


P = ScenarioProperty(
    PROP,
    {
        "levels": (2, 3),
        "lsc_kinds": ["DontStop", "MetaepochLimit", "MetaepochLimit", "FitnessSteadiness", "AllChildrenStopped", "DontRun", "Scripted", "Scripted", "Scripted"],
        "root_lsc_kinds": ["DontStop", "DontStop", "DontStop", "MetaepochLimit", "AllChildrenStopped", "Scripted"],
        "cap": (8, 12),
        "sprouty": True,
        "level_limit_min": 2,
        "families": ["sphere", "rastrigin", "step", "linear", "constant", "abssum", "twobasin", "offset", "nanhole"],
        "gsc_kinds": ["MetaepochLimit", "SingularProblemEvalLimitReached", "FitnessEvalLimitReached", "AllStopped", "NoActiveNonrootDemes", "RootStopped", "Never", "Never", "Never"],
    },
    lambda sc: [C06Checker(sc)],
    _judge,
    quick=3200,
    thorough=60000, machine={"budget": (640, 12000)},
)
run_shard = P.run_shard
replay = P.replay
