"""C13 — maximising f behaves exactly like minimising -f (metamorphic twins)."""
from __future__ import annotations

import random
import types

import numpy as np
from hypothesis import strategies as st

from ..common import Tally, Violation, shard_seed
from ..digest import tree_diff, tree_digest
from ..driver import hyp_drive
from ..harness import Run
from ..runprop import labels_of
from ..scenario import scenario_summary, scenarios

PROP = "C13"
RULE = (
    "decision tier: twin calls with identical numpy/random state on (f, maximize) and (-f, minimize) of Individual ordering and "
    "max, Population.topk(k) for 0<=k<=n, TournamentSelection, BaseSEA.select_new_population, one DE / DE-dither / SHADE step, "
    "DemeLimit, LevelLimit (stub tree), R5SSelection on generated populations (distinct and tie-heavy fitness); the same "
    "individuals must be selected (for tied fitness only the fitness multisets are compared). run tier: whole seeded runs of "
    "generated configurations restricted as the statement says (DE, SHADE, CMA-ES, local, LHS, Sobol; DontStop / MetaepochLimit / "
    "AllChildrenStopped) on both formulations: call logs must agree genome by genome with negated values and the trees must be "
    "identical after negating fitness. Non-trivial = the decision was not forced (k<n and >=2 distinct fitness values) / the run "
    "had >=1 sprout and a non-root deme that ran >=2 metaepochs; distinct = distinct case digests."
)
ASSUMPTIONS = [
    "IEEE negation is exact, so -f needs no tolerance",
    "MWEA, FitnessSteadiness and SEA-family levels are excluded from the whole-run form exactly as the statement excludes them",
]

class Stub:
    """hashable stand-in for a deme (the filters only read .level / .is_active)"""

    def __init__(self, **kw):
        self.__dict__.update(kw)


COMPONENTS = ["order", "topk", "tournament", "select_new", "de", "de_dither", "shade", "deme_limit", "level_limit", "r5s"]
FIT_MENU = [0.0, 1.0, 1.0, 2.0, 3.0, -1.0, 0.5, 2.0, -1.0, 7.0]


@st.composite
def decision_cases(draw):
    comp = draw(st.sampled_from(COMPONENTS))
    n = draw(st.integers(4, 12))
    d = draw(st.integers(2, 4))
    distinct = draw(st.booleans())
    if distinct:
        fit = draw(st.lists(st.floats(-5, 5, allow_nan=False), min_size=n, max_size=n, unique=True))
    else:
        fit = [FIT_MENU[i] for i in draw(st.lists(st.integers(0, len(FIT_MENU) - 1), min_size=n, max_size=n))]
    return {
        "component": comp,
        "n": n,
        "d": d,
        "fitness": fit,
        "distinct": distinct,
        "gseed": draw(st.integers(0, 10**6)),
        "seed": draw(st.integers(0, 2**31 - 1)),
        "k": draw(st.integers(0, n)),
        "limit": draw(st.integers(1, 5)),
        "active_below": draw(st.integers(0, 3)),
        "family": draw(st.sampled_from(["sphere", "step"])),
        "cr": draw(st.sampled_from([0.1, 0.9, 1.0])),
        "scaling": draw(st.sampled_from([0.5, 0.8])),
        "steps": draw(st.integers(1, 3)),
        "parents": draw(st.integers(1, 3)),
    }


def _seed(s):
    np.random.seed(s)
    random.seed(s)


def _obj(family):
    if family == "sphere":
        return lambda x: float(np.sum(np.asarray(x) ** 2))
    return lambda x: float(np.sum(np.floor(np.abs(np.asarray(x)) * 2.0)))


def check_decision(case) -> tuple[list[Violation], bool]:
    from pyhms.core.individual import Individual
    from pyhms.core.population import Population
    from pyhms.core.problem import FunctionProblem
    from pyhms.demes.single_pop_eas.de import DE, SHADE
    from pyhms.demes.single_pop_eas.sea import SEA, TournamentSelection
    from pyhms.sprout.sprout_candidates import DemeCandidates, DemeFeatures
    from pyhms.sprout.sprout_filters import DemeLimit, LevelLimit
    from pyhms.utils.r5s import R5SSelection

    comp, n, d = case["component"], case["n"], case["d"]
    G = np.random.RandomState(case["gseed"]).uniform(-3, 3, size=(n, d))
    F = np.array(case["fitness"], dtype=float)
    bounds = np.array([[-3.0, 3.0]] * d)
    base = _obj(case["family"])
    pmax = FunctionProblem(lambda x: base(x), bounds=bounds, maximize=True)
    pmin = FunctionProblem(lambda x: -base(x), bounds=bounds, maximize=False)
    if comp in ("de", "de_dither", "shade"):
        F = np.array([base(g) for g in G])
    I1 = [Individual(G[i].copy(), pmax, float(F[i])) for i in range(n)]
    I2 = [Individual(G[i].copy(), pmin, float(-F[i])) for i in range(n)]
    idx1 = {id(x): i for i, x in enumerate(I1)}
    idx2 = {id(x): i for i, x in enumerate(I2)}
    distinct = len(set(F.tolist())) == n
    vs: list[Violation] = []
    forced = False

    def fail(sub, detail):
        vs.append(Violation(PROP, f"C13/decision/{sub}", f"{detail} [fitness={F.tolist()}]"))

    def same_selection(name, g1, f1, g2, f2):
        """g*: selected genomes (arrays), f*: their fitness on the respective formulation"""
        a = sorted(map(tuple, np.asarray(g1).reshape(len(g1), -1).tolist())) if len(g1) else []
        b = sorted(map(tuple, np.asarray(g2).reshape(len(g2), -1).tolist())) if len(g2) else []
        if len(a) != len(b):
            fail(f"{name}/size", f"{name}: {len(a)} individuals selected on (f,max) but {len(b)} on (-f,min)")
            return
        if distinct:
            if a != b:
                fail(f"{name}/different-individuals", f"{name}: different individuals selected: max-formulation fitness {sorted(f1)}, min-formulation (negated back) {sorted(-x for x in f2)}")
        else:
            if sorted(f1) != sorted(-x for x in f2):
                fail(f"{name}/different-fitness-multiset", f"{name}: selected fitness multisets differ: {sorted(f1)} vs {sorted(-x for x in f2)}")

    if comp == "order":
        m1, m2 = max(I1), max(I2)
        if m1.fitness != -m2.fitness:
            fail("max", f"max() picks fitness {m1.fitness} on (f,max) but {-m2.fitness} (negated back) on (-f,min)")
        s1 = [x.fitness for x in sorted(I1)]
        s2 = [-x.fitness for x in sorted(I2)]
        if s1 != s2:
            fail("sorted", f"sorted() orders differ: {s1} vs {s2}")
        forced = len(set(F.tolist())) < 2
    elif comp == "topk":
        k = case["k"]
        t1 = Population.from_individuals(I1).topk(k)
        t2 = Population.from_individuals(I2).topk(k)
        same_selection(f"topk({'0' if k == 0 else 'k'})", t1.genomes, t1.fitnesses.tolist(), t2.genomes, t2.fitnesses.tolist())
        forced = k >= n or len(set(F.tolist())) < 2
    elif comp == "tournament":
        _seed(case["seed"])
        t1 = TournamentSelection()(Population.from_individuals(I1))
        _seed(case["seed"])
        t2 = TournamentSelection()(Population.from_individuals(I2))
        if not np.array_equal(t1.fitnesses, -t2.fitnesses) or (distinct and not np.array_equal(t1.genomes, t2.genomes)):
            fail("tournament", f"tournament winners differ: {t1.fitnesses.tolist()} vs {(-t2.fitnesses).tolist()}")
        forced = len(set(F.tolist())) < 2
    elif comp == "select_new":
        k = max(1, min(3, case["k"]))
        G2 = np.random.RandomState(case["gseed"] + 1).uniform(-3, 3, size=(n, d))
        F2 = np.random.RandomState(case["gseed"] + 2).permutation(F) if not distinct else F[::-1] + 0.123
        sea = SEA(variational_operators_pipeline=[], k_elites=k)
        r1 = sea.select_new_population(Population.from_individuals(I1), Population(G2.copy(), F2.copy(), pmax))
        r2 = sea.select_new_population(Population.from_individuals(I2), Population(G2.copy(), -F2.copy(), pmin))
        allf = F.tolist() + F2.tolist()
        old = distinct
        distinct = len(set(allf)) == len(allf)
        same_selection("select_new_population", r1.genomes, r1.fitnesses.tolist(), r2.genomes, r2.fitnesses.tolist())
        distinct = old
        forced = len(set(allf)) < 2
    elif comp in ("de", "de_dither", "shade"):
        if comp == "shade":
            e1, e2 = SHADE(3, n), SHADE(3, n)
        else:
            e1 = DE(use_dither=(comp == "de_dither"), crossover_probability=case["cr"], f=case["scaling"])
            e2 = DE(use_dither=(comp == "de_dither"), crossover_probability=case["cr"], f=case["scaling"])
        _seed(case["seed"])
        p1 = I1
        for _ in range(case["steps"]):
            p1 = e1.run(p1)
        _seed(case["seed"])
        p2 = I2
        for _ in range(case["steps"]):
            p2 = e2.run(p2)
        g1 = np.array([x.genome for x in p1])
        g2 = np.array([x.genome for x in p2])
        f1 = [x.fitness for x in p1]
        f2 = [-x.fitness for x in p2]
        if not np.array_equal(g1, g2) or f1 != f2:
            fail(f"{comp}-step", f"{comp}: after {case['steps']} steps the populations differ (fitness {f1} vs {f2})")
        forced = False
    elif comp == "deme_limit":
        lim = case["limit"]
        stub1, stub2 = Stub(level=0), Stub(level=0)
        c1 = DemeLimit(lim)({stub1: DemeCandidates(list(I1), DemeFeatures())}, None)
        c2 = DemeLimit(lim)({stub2: DemeCandidates(list(I2), DemeFeatures())}, None)
        k1, k2 = c1[stub1].individuals, c2[stub2].individuals
        same_selection("DemeLimit", [x.genome for x in k1], [x.fitness for x in k1], [x.genome for x in k2], [x.fitness for x in k2])
        forced = lim >= n or len(set(F.tolist())) < 2
    elif comp == "level_limit":
        lim = case["limit"] + case["active_below"]

        def mk(I):
            np_ = case["parents"]
            parents = [Stub(level=0, is_active=True, id=f"p{j}") for j in range(np_)]
            below = [Stub(level=1, is_active=(j < case["active_below"]), id=f"c{j}") for j in range(case["active_below"] + 1)]
            tree = types.SimpleNamespace(levels=[parents, below])
            cands = {p: DemeCandidates([x for i, x in enumerate(I) if i % np_ == j], DemeFeatures()) for j, p in enumerate(parents)}
            res = LevelLimit(lim)(cands, tree)
            return [x for p in parents for x in res[p].individuals]

        k1, k2 = mk(I1), mk(I2)
        same_selection("LevelLimit", [x.genome for x in k1], [x.fitness for x in k1], [x.genome for x in k2], [x.fitness for x in k2])
        forced = case["limit"] >= n or len(set(F.tolist())) < 2
    elif comp == "r5s":
        r1 = R5SSelection()(list(I1))
        r2 = R5SSelection()(list(I2))
        a = sorted(idx1[id(x)] for x in r1)
        b = sorted(idx2[id(x)] for x in r2)
        if distinct and a != b:
            fail("r5s", f"R5S selects individuals {a} on (f,max) but {b} on (-f,min)")
        elif not distinct and sorted(x.fitness for x in r1) != sorted(-x.fitness for x in r2):
            fail("r5s", f"R5S selects fitness {sorted(x.fitness for x in r1)} on (f,max) but {sorted(-x.fitness for x in r2)} on (-f,min)")
        forced = n <= 5 or len(set(F.tolist())) < 2
    return vs, not forced


# ------------------------------------------------------------------------------------------------
# run tier

RUN_PROFILE = {
    "engines": ["DE", "SHADE", "LHS", "Sobol", "CMA", "Local"],
    "root_engines": ["DE", "DE", "SHADE", "SHADE", "LHS", "Sobol"],
    "lsc_kinds": ["DontStop", "DontStop", "MetaepochLimit", "MetaepochLimit", "AllChildrenStopped"],
    "gsc_kinds": ["MetaepochLimit", "MetaepochLimit", "SingularProblemEvalLimitReached", "FitnessEvalLimitReached", "AllStopped", "RootStopped", "NoActiveNonrootDemes"],
    "levels": (1, 3),
    "maximize": True,
    "max_wrappers": 1,
    "generators": ["BestPerDeme", "NBC", "NBCLocal", "Scripted"],
    "families": ["sphere", "rastrigin", "step", "linear", "abssum", "twobasin", "offset"],
    "second_run": True,
}


def check_twins(sc) -> tuple[list[Violation], Run, Run]:
    sc1 = dict(sc)
    sc1["maximize"] = True
    sc2 = dict(sc)
    sc2["maximize"] = False
    r1 = Run(sc1, sign=-1.0)
    r1.run_all()
    # (optionally the second formulation is given the very same sprout-mechanism objects as the first)
    # (not with the scripted user generator: it consumes its tape, i.e. it is stateful by construction)
    shareable = sc["sprout"].get("generator", {}).get("kind") not in ("Scripted", "Queue")
    r2 = Run(sc2, sign=1.0, reuse_from=(r1 if shareable and sc.get("second_run_seed") is not None and not r1.crash and r1.tree is not None else None))
    r2.run_all()
    vs: list[Violation] = []
    if r1.crash or r2.crash:
        return vs, r1, r2
    c1, c2 = r1.trace.calls, r2.trace.calls
    engines = "/".join(lv["engine"] for lv in sc["levels"])
    first = None
    for i, (a, b) in enumerate(zip(c1, c2)):
        if not np.array_equal(a.x, b.x) or a.value != -b.value:
            first = i
            break
    if first is None and len(c1) != len(c2):
        first = min(len(c1), len(c2))
    if first is not None:
        who = c1[first] if first < len(c1) else c2[first]
        d = next((x for _, x in r1.tree.all_demes if x.id == who.deme), None)
        vs.append(
            Violation(
                PROP,
                f"C13/run/evaluations-diverge/{type(d).__name__ if d is not None else 'unknown'}",
                f"engines {engines}: the two formulations visit different genomes from evaluation #{first} on (made by deme {who.deme}, level {who.level}); "
                f"{len(c1)} evaluations on (f,max) vs {len(c2)} on (-f,min)",
            )
        )
    elif tree_digest(r1.tree) != tree_digest(r2.tree, negate_fitness=True):
        vs.append(Violation(PROP, "C13/run/trees-differ", f"engines {engines}: same evaluations but different trees: " + tree_diff(r1.tree, r2.tree, negate_second=True)))
    return vs, r1, r2


def run_shard(tier, seed, shard, nshards, tally: Tally, scale=1.0):
    n_dec = max(5, int({"quick": 12000, "thorough": 400000}[tier] * scale / nshards))
    n_run = max(3, int({"quick": 800, "thorough": 20000}[tier] * scale / nshards))

    def body_dec(case):
        vs, nt = check_decision(case)
        tally.label("decision=" + case["component"])
        tally.add_case({"decision": case}, nt, sample={"decision": case})
        tally.count("decision_cases")
        return vs

    def body_run(sc):
        vs, r1, r2 = check_twins(sc)
        if r1.crash or r2.crash:
            b = (r1.crash or r2.crash)[0]
            tally.aborted[b] = tally.aborted.get(b, 0) + 1
        for lb in labels_of(r1):
            tally.label("run:" + lb)
        t = r1.tree
        nt = t is not None and not r1.crash and sum(len(l) for l in t.levels[1:]) >= 1 and any(d.metaepoch_count >= 2 for l in t.levels[1:] for d in l)
        sample = scenario_summary(sc)
        sample["outcome"] = r1.shape()
        tally.add_case({"twin": sc}, bool(nt), sample={"twin_run": sample})
        tally.count("twin_runs")
        return vs

    fs = hyp_drive(PROP, decision_cases(), body_dec, tally=tally, max_examples=n_dec, seed=shard_seed(seed, shard, 1), kind="decision")
    fs += hyp_drive(PROP, scenarios(RUN_PROFILE), body_run, tally=tally, max_examples=n_run, seed=shard_seed(seed, shard, 2), kind="twin")
    return fs


def replay(case, kind=""):
    if kind == "decision" or "component" in case:
        return check_decision(case)[0]
    return check_twins(case)[0]
