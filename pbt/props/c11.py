"""C11 — each generation is bred from the generation immediately before it."""
from ..checkers import C11Checker
from ..propbase import ScenarioProperty

PROP = "C11"
RULE = (
    "generated configurations with generations per metaepoch in {2,3} (and 1), every population engine as root and as child, "
    "p_mutation<1 and crossover<1 included; the per-generation segments of the time-stamped objective call log (a deme consults "
    "the GSC after each generation) are joined with deme.history: every individual of generation g is bit-equal to a member of "
    "g-1 or was evaluated in g's own segment; additionally an ea_class pass-through proxy checks that the parents handed to the "
    "k-th engine run are exactly the offspring of the (k-1)-th. Non-trivial = a metaepoch with >=2 generations whose first "
    "generation differs from the metaepoch's starting population; distinct = distinct scenario digests."
)
ASSUMPTIONS = ["the engine proxy is the documented ea_class extension point of EALevelConfig", "sentinel individuals (refused evaluations) are exempt"]


def _judge(run):
    ch = run.checkers[0]
    return [], bool(ch.multi_gen_changed)


P = ScenarioProperty(
    PROP,
    {"min_generations": 2, "engines": ["SEA", "SEAWithCrossover", "GAStyleSEA", "SEAWithAdaptiveMutation", "MWEA", "DE", "SHADE", "CMA"], "hibernation": 0.2},
    lambda sc: [C11Checker(sc)],
    _judge,
    quick=1600,
    thorough=30000,
    run_kwargs={"proxy_engines": True},
)
run_shard = P.run_shard
replay = P.replay
