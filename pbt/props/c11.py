"""C11 — each generation is bred from the generation immediately before it."""
from ..checkers import C11Checker
from ..propbase import ScenarioProperty

PROP = "C11"
RULE = (
    "generated configurations with generations per metaepoch in {2,3} (and 1), every population engine as root and as child, "
    "p_mutation<1 and crossover<1 included; the per-generation segments of the time-stamped objective call log (a deme consults "
    "the GSC after each generation) are joined with deme.history: every individual of generation g is bit-equal to a member of "
    "g-1 or was evaluated in g's own segment; additionally an ea_class pass-through proxy checks that the parents handed to the "
    "k-th engine run are exactly the offspring of the (k-1)-th; a dependence tier re-runs the scenario with the fitness "
    "ranking of a CMA-ES deme's generation 0 reversed (same genomes) and requires generation 1 to change. Non-trivial = a metaepoch with >=2 generations whose first "
    "generation differs from the metaepoch's starting population; distinct = distinct scenario digests."
)
ASSUMPTIONS = ["the engine proxy is the documented ea_class extension point of EALevelConfig", "sentinel individuals (refused evaluations) are exempt"]


def _judge(run):
    ch = run.checkers[0]
    return [], bool(ch.multi_gen_changed)


P = ScenarioProperty(
    PROP,
    {"min_generations": 1, "pmut_low": True, "observe_intermittently": True, "engines": ["SEA", "SEAWithCrossover", "GAStyleSEA", "SEAWithAdaptiveMutation", "MWEA", "DE", "SHADE", "CMA"], "hibernation": 0.2},
    lambda sc: [C11Checker(sc)],
    _judge,
    quick=1600,
    thorough=30000,
    run_kwargs={"proxy_engines": True},
)
# ------------------------------------------------------------------------------------------------
# dependence tier (CMA-ES): a generation that is bred from its predecessor must react to the predecessor's ranking.
# Run A as generated; run B identical except that the objective returns, at the exact genomes of the CMA-ES deme's
# generation 0, the values of the oppositely ranked members. Everything up to that generation is bit-identical, and
# CMA-ES's next sampling distribution is a function of the ranking it is told - so generation 1 must differ.

import numpy as np  # noqa: E402

from ..common import Violation, shard_seed  # noqa: E402
from ..driver import hyp_drive  # noqa: E402
from ..harness import Run  # noqa: E402
from ..scenario import scenario_summary, scenarios  # noqa: E402

DEP_PROFILE = {
    "levels": (2, 3),
    "engines": ["SEA", "DE", "SHADE", "LHS", "CMA"],
    "cma_weight": 12,
    "local_weight": 0,
    "sprouty": True,
    "level_limit_min": 1,
    "families": ["sphere", "rastrigin", "abssum", "twobasin", "linear"],
    "max_wrappers": 0,
    "cap": (6, 9),
    "lsc_kinds": ["DontStop", "DontStop", "MetaepochLimit"],
    "root_lsc_kinds": ["DontStop"],
    "gsc_kinds": ["Never", "MetaepochLimit", "SingularProblemEvalLimitReached"],
    "hibernation": 0.0,
}


def check_dependence(sc) -> tuple[list[Violation], bool]:
    a = Run(sc)
    a.run_all()
    if a.crash or a.tree is None:
        return [], False
    target = None
    for lvl in range(1, len(a.tree.levels)):
        if sc["levels"][lvl]["engine"] != "CMA":
            continue
        for d in a.tree.levels[lvl]:
            flat = d.history
            if len(flat) >= 2 and len(flat[0]) >= 2:
                vals = [float(i.fitness) for i in flat[0]]
                if all(np.isfinite(vals)) and len(set(vals)) == len(vals):
                    target = d
                    break
        if target is not None:
            break
    if target is None:
        return [], False
    g0 = target.history[0]
    pts = [np.array(i.genome, dtype=float) for i in g0]
    vals = [float(i.fitness) for i in g0]
    order = sorted(range(len(vals)), key=lambda i: vals[i])
    new_vals = list(vals)
    for r, i in enumerate(order):
        new_vals[i] = vals[order[len(order) - 1 - r]]  # rank r gets the value of rank k-1-r
    sc_b = dict(sc)
    sc_b["remap"] = {"points": [p.tolist() for p in pts], "values": new_vals}
    b = Run(sc_b)
    b.run_all()
    if b.crash or b.tree is None:
        return [], False
    twin = next((d for _, d in b.tree.all_demes if d.id == target.id), None)
    if twin is None or len(twin.history) < 2:
        return [], False
    h0 = twin.history[0]
    if len(h0) != len(g0) or not all(np.array_equal(x.genome, y.genome) for x, y in zip(g0, h0)):
        return [], False  # the two runs already differ before the generation in question: nothing to conclude
    if [float(i.fitness) for i in h0] != new_vals:
        return [], False
    g1a, g1b = target.history[1], twin.history[1]
    same = len(g1a) == len(g1b) and all(np.array_equal(x.genome, y.genome) for x, y in zip(g1a, g1b))
    if same:
        return [
            Violation(
                PROP,
                "C11/cma-generation-ignores-predecessor",
                f"CMA-ES deme {target.id}: reversing the fitness ranking of its generation 0 (same genomes, values {vals} -> {new_vals}) leaves generation 1 bit-identical: generation 1 is not bred from generation 0",
            )
        ], True
    return [], True


def run_shard(tier, seed, shard, nshards, tally, scale=1.0):
    fs = P.run_shard(tier, seed, shard, nshards, tally, scale)
    n = max(3, int({"quick": 480, "thorough": 10000}[tier] * scale / nshards))

    def body(sc):
        vs, applicable = check_dependence(sc)
        tally.label("dependence:" + ("applicable" if applicable else "no_cma_deme_with_two_generations"))
        tally.add_case({"dependence": sc}, applicable, sample={"dependence_twin": scenario_summary(sc)})
        tally.count("dependence_cases")
        return vs

    fs += hyp_drive(PROP, scenarios(DEP_PROFILE), body, tally=tally, max_examples=n, seed=shard_seed(seed, shard, 31), kind="dependence")
    return fs


def replay(case, kind=""):
    if kind == "dependence":
        return check_dependence(case)[0]
    return P.replay(case, kind)
