"""C20 — reports agree with the tree, and looking at a tree does not change it."""
from ..checkers import C20Checker
from ..common import Violation
from ..digest import tree_diff, tree_digest
from ..harness import Run
from ..propbase import ScenarioProperty

PROP = "C20"
RULE = (
    "generated configurations (1-3 levels, both directions, exact-zero objectives included) run with DemeTree.run(); at EVERY "
    "metaepoch boundary summary() and tree() are parsed line by line and compared with the public attributes (metaepoch count, "
    "total / per-level evaluations and deme counts, best fitness, one line per deme that ran with its evaluation count, *** on "
    "exactly the displayed demes whose best equals the global best); around each accessor (summary, tree, best_individual, "
    "all_individuals, r5s_solutions, per-deme bests, centroid, best_fitness_by_metaepoch) the objective call log, the tree digest "
    "and both global RNG states must be unchanged and a second call must give the same answer; finally the same scenario is "
    "re-run WITHOUT any looking and must produce the identical tree (purity differential). Non-trivial = >=3 displayed demes and "
    ">=1 not-yet-displayed deme at some boundary; distinct = distinct scenario digests."
)
ASSUMPTIONS = [
    "an accessor that raises consistently and without side effects is recorded (accessor_raised) but is not a violation of this statement",
    "best fitness strings are compared after the same formatting the report uses (:.4e / :.2e)",
]


def _judge(run):
    ch = run.checkers[0]
    labels = []
    if ch.zero_best:
        labels.append("global_best_exactly_zero")
    for k in ch.accessor_raised:
        labels.append("accessor_raised:" + k)
    return labels, bool(ch.displayed_max >= 3 and ch.hidden_seen)


def _post(run):
    """purity differential: the same scenario without anybody looking must give the same tree"""
    if run.tree is None or run.sc["objective"]["family"] == "nanhole":
        return []
    blind = Run(run.sc, checkers=[])
    blind.run_all()
    if blind.crash or blind.tree is None:
        return []
    if tree_digest(blind.tree) != tree_digest(run.tree):
        return [Violation(PROP, "C20/purity/looking-changes-the-run", "the run in which reports and accessors were called at every boundary differs from the same seeded run without looking: " + tree_diff(run.tree, blind.tree))]
    return []


P = ScenarioProperty(PROP, {"families": ["step", "constant", "sphere", "rastrigin", "abssum", "twobasin", "linear", "offset", "nanhole"], "cap": (6, 10), "observe_intermittently": True, "allow_cache": True}, lambda sc: [C20Checker(sc)], _judge, quick=1600, thorough=30000, machine={"allow_reload": False, "profile": {"observe_intermittently": True}}, post=_post)
run_shard = P.run_shard
replay = P.replay
