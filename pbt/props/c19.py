"""C19 — a tree can be snapshotted and restored at any metaepoch boundary."""
from __future__ import annotations

import os
import random
import shutil
import tempfile

import numpy as np
from hypothesis import strategies as st

from ..c14_worker import summary_fingerprint
from ..checkers import C03Checker, C04Checker, C07Checker, C08Checker, _rng_state
from ..common import Tally, Violation, shard_seed
from ..digest import tree_diff, tree_digest
from ..driver import hyp_drive
from ..harness import Checker, Run
from ..runprop import labels_of
from ..scenario import scenario_summary, scenarios

PROP = "C19"
RULE = (
    "case = generated complete configuration (objective handed over as callable object, lambda or closure; all engines incl. "
    "live CMA-ES objects, LHS/Sobol samplers, SHADE memory, finished local demes; hibernation on/off; one objective family is "
    "undefined (NaN) on part of the box) x snapshot point k drawn "
    "from 0..cap; the run is driven step by step, at boundary k pickle_dump/pickle_load are called: the live tree's digest, "
    "summary() and both global RNG states must be unchanged by the dump, the loaded tree must have the same digest, summary, flags, "
    "counters and GSC verdict; then, from the same global RNG state, both the live and the loaded tree are run to the end with the "
    "C03/C04/C07/C08 monitors attached (whether the two continuations end in identical trees is recorded as a label only). Non-trivial = snapshot strictly inside the run with an "
    "active non-root deme; distinct = distinct (scenario, k) digests."
)
ASSUMPTIONS = [
    "one Python / numpy / cma / dill version (this sandbox)",
    "the continued runs are compared after restoring the same global RNG state (pickle_dump does not capture numpy's global generator)",
]


def _layers(problem):
    from pyhms.core.problem import ProblemWrapper

    out = []
    p = problem
    while isinstance(p, ProblemWrapper):
        out.insert(0, p)
        p = p._inner
    return out


def _attach(sc, tree, checkers):
    """monitor a restored tree through its own (restored) observers"""
    shell = Run.__new__(Run)
    shell.sc = sc
    shell.checkers = checkers
    shell.tree = tree
    shell.crash = None
    shell.boundaries = 0
    shell.ended = False
    shell.timed_out = False
    shell.gsc = tree._gsc
    shell.trace = tree._gsc.trace
    shell.trace.listeners = checkers
    shell.trace.run = shell
    shell.level_problems = [lv.problem for lv in tree.config.levels]
    shell.level_layers = [_layers(lv.problem) for lv in tree.config.levels]
    return shell


def _monitors(sc):
    if sc["objective"]["family"] == "nanhole":
        return [C07Checker(sc), C08Checker(sc)]  # accounting / best-so-far monitors assume finite objective values
    return [C03Checker(sc), C04Checker(sc), C07Checker(sc), C08Checker(sc)]


def check_case(case) -> tuple[list[Violation], dict]:
    from pyhms.tree import DemeTree

    sc, k = case["scenario"], int(case["k"])
    vs: list[Violation] = []
    info = {"nontrivial": False, "labels": [], "run": None}
    seen = set()

    def fail(sub, detail):
        sig = f"C19/{sub}"
        if sig not in seen:
            seen.add(sig)
            vs.append(Violation(PROP, sig, detail))

    live = Run(sc, checkers=_monitors(sc))
    info["run"] = live
    if not live.start():
        return vs, info
    tmp = tempfile.mkdtemp(prefix="pyhms_c19_", dir="/tmp")
    try:
        steps = 0
        done = False
        try:
            while True:
                stop = live.head()
                if steps == k or stop:
                    break
                live.tree.run_step()
                steps += 1
        except Exception as e:  # noqa: BLE001
            from ..harness import crash_bucket

            live.crash = (crash_bucket(e), str(e))
            return vs, info
        tree = live.tree
        inside = not stop
        info["nontrivial"] = bool(inside and steps >= 1 and any(d.is_active for lvl in tree.levels[1:] for d in lvl))
        info["labels"].append("snapshot_inside_run" if inside else "snapshot_at_end")
        path = os.path.join(tmp, "snap.pkl")
        nan_obj = sc["objective"]["family"] == "nanhole"  # (ties between NaN values are broken by coin flips: summaries are not comparable)
        # the FULL summary text, timing statistics included: live and loaded tree hold the same samples
        fp = (lambda t: "") if nan_obj else (lambda t: t.summary())
        d0, s0, c0 = tree_digest(tree), fp(tree), len(live.trace.calls)
        verdict0 = bool(live.inner_gsc(tree))
        r0 = _rng_state()  # taken last: nothing but the dump itself happens between r0 and r1
        try:
            tree.pickle_dump(path)
        except Exception as e:  # noqa: BLE001
            fail("dump-raised/" + type(e).__name__, f"pickle_dump raised at metaepoch {tree.metaepoch_count}: {e!r}"[:600])
            return vs, info
        r1 = _rng_state()
        if r1 != r0:
            fail("dump-consumed-randomness", "pickle_dump changed the state of a global random generator" + (" (objective with NaN values)" if nan_obj else ""))
        if tree_digest(tree) != d0 or fp(tree) != s0:
            fail("dump-changed-live-tree", f"pickle_dump at metaepoch {tree.metaepoch_count} changed the live tree")
        r0 = _rng_state()
        if len(live.trace.calls) != c0:
            fail("dump-evaluated", "pickle_dump invoked the objective")
        try:
            loaded = DemeTree.pickle_load(path)
        except Exception as e:  # noqa: BLE001
            fail("load-raised/" + type(e).__name__, f"pickle_load raised for a snapshot taken at metaepoch {tree.metaepoch_count}: {e!r}"[:600])
            return vs, info
        if _rng_state() != r0:
            fail("load-consumed-randomness", "pickle_load changed the state of a global random generator")
        if tree_digest(loaded) != d0:
            fail("loaded-tree-differs", f"snapshot at metaepoch {tree.metaepoch_count}: the loaded tree differs from the original: " + tree_diff(tree, loaded))
        elif fp(loaded) != s0:
            fail("loaded-summary-differs", "the loaded tree's summary() differs from the original's")
        try:
            v1 = bool(loaded._gsc.inner(loaded))
            if v1 != verdict0:
                fail("loaded-gsc-verdict", f"global stop condition says {verdict0} on the live tree and {v1} on the loaded one")
        except Exception as e:  # noqa: BLE001
            fail("loaded-gsc-raised", f"the restored global stop condition raised {e!r}")
        if vs:
            return vs, info
        # continue both from the same global RNG state ------------------------------------------
        np_state, py_state = np.random.get_state(), random.getstate()
        try:
            while not live.head():
                live.tree.run_step()
        except Exception as e:  # noqa: BLE001
            from ..harness import crash_bucket

            live.crash = (crash_bucket(e), str(e))
        live.finish()
        for v in live.violations:
            vs.append(v)  # foreign-property monitors on the live run: reported under their own signatures (not C19)
        np.random.set_state(np_state)
        random.setstate(py_state)
        mon = _monitors(sc)
        for m in mon:
            if hasattr(m, "adopt"):
                m.adopt(loaded)
        shell = _attach(sc, loaded, mon)
        shell.inner_gsc = loaded._gsc.inner
        crashed = None
        try:
            loaded.run()  # the restored tree is handed to the real run()
        except Exception as e:  # noqa: BLE001
            crashed = e
        shell.finish()
        if live.crash or crashed:
            if bool(live.crash) != bool(crashed):
                fail("continuation-raised-on-one-side", f"continuing the {'live' if live.crash else 'loaded'} tree raised {(live.crash[0] if live.crash else repr(crashed))} but the other continuation did not")
            return [v for v in vs if v.prop == PROP], info
        for v in shell.violations:
            fail("loaded-run/" + v.signature, f"invariant broken while running the loaded tree on: {v.detail}")
        # Not a clause of C19: a restored tree need not replay the live tree's future (dill pickles
        # CMA-ES's `randn = np.random.randn` bound method together with a private copy of numpy's global
        # generator, so restored CMA-ES demes no longer draw from the global stream). Counted, never alarmed.
        info["labels"].append("continuation_equal" if tree_digest(loaded) == tree_digest(live.tree) else "continuation_differs")
        vs = [v for v in vs if v.prop == PROP]
    finally:
        shutil.rmtree(tmp, ignore_errors=True)
    return vs, info


class AsC19(Checker):
    """the C03/C04/C07/C08 monitors attached to a run that continues on restored trees; what they report is a C19 matter"""

    prop = PROP

    def __init__(self, sc):
        super().__init__()
        self.inner = _monitors(sc)

    def on_start(self, run):
        [c.on_start(run) for c in self.inner]

    def on_gsc(self, run, e):
        [c.on_gsc(run, e) for c in self.inner]

    def on_round(self, run, rnd):
        [c.on_round(run, rnd) for c in self.inner]

    def on_filter(self, run, e):
        [c.on_filter(run, e) for c in self.inner]

    def on_boundary(self, run, k):
        [c.on_boundary(run, k) for c in self.inner]

    def on_end(self, run):
        [c.on_end(run) for c in self.inner]

    @property
    def violations(self):
        return [Violation(PROP, "C19/continued-run/" + v.signature, "while running on across dump/load cycles: " + v.detail) for c in self.inner for v in c.violations]

    @violations.setter
    def violations(self, value):
        pass


def _judge_machine(run):
    t = run.tree
    return [], bool(t is not None and t.metaepoch_count >= 2 and sum(len(l) for l in t.levels[1:]) >= 1)


@st.composite
def cases(draw):
    from ..scenario import Objective

    sc = draw(scenarios({"cap": (5, 9), "families": Objective.FAMILIES + ["nanhole"], "allow_cache": True}))
    sc["objective_style"] = draw(st.sampled_from(["object", "lambda", "closure"]))
    return {"scenario": sc, "k": draw(st.integers(0, 9))}


def run_shard(tier, seed, shard, nshards, tally: Tally, scale=1.0):
    n = max(3, int({"quick": 1200, "thorough": 30000}[tier] * scale / nshards))

    def body(case):
        vs, info = check_case(case)
        run = info["run"]
        if run is not None:
            if run.crash:
                tally.aborted[run.crash[0]] = tally.aborted.get(run.crash[0], 0) + 1
            for lb in labels_of(run) + info["labels"]:
                tally.label(lb)
        tally.label("objective_style=" + case["scenario"].get("objective_style", "object"))
        sample = scenario_summary(case["scenario"])
        sample["snapshot_after_steps"] = case["k"]
        tally.add_case(case, info["nontrivial"], sample=sample)
        return vs

    fs = hyp_drive(PROP, cases(), body, tally=tally, max_examples=n, seed=shard_seed(seed, shard), kind="snapshot")
    # machine tier: histories with several dump/load cycles, the run always continuing on the LOADED tree
    from ..driver import machine_drive
    from ..machine import make_tree_machine

    nm = max(2, int({"quick": 240, "thorough": 6000}[tier] * scale / nshards))
    fs += machine_drive(
        PROP,
        lambda coll, tl: make_tree_machine(PROP, lambda sc: [AsC19(sc)], _judge_machine, coll, tl, roundtrip_checks=True, allow_look=True),
        tally=tally,
        max_examples=nm,
        steps={"quick": 12, "thorough": 30}[tier],
        seed=shard_seed(seed, shard, 11),
        kind="machine",
    )
    return fs


def replay(case, kind=""):
    if kind == "machine" or "ops" in case:
        from ..machine import replay_machine

        return replay_machine(case, PROP, lambda sc: [AsC19(sc)], roundtrip_checks=True)
    return check_case(case)[0]
