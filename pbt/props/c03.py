"""C03 — evaluation counts are exact and evaluation budgets are hard limits."""
from ..checkers import C03Checker
from ..propbase import ScenarioProperty

PROP = "C03"
RULE = (
    "generated complete configurations (per-level recorders or one shared problem, wrapper stacks incl. cutoff(N), every "
    "eval-based GSC weighting) run with DemeTree.run(); at EVERY consultation of the global stop condition (after every "
    "generation of every deme, at loop heads and after metaepochs) and at the end: tree.n_evaluations == sum over demes == "
    "number of objective invocations, per level and in total, until a cutoff wrapper has forwarded N calls; never more than N "
    "invocations behind a cutoff; plus minimize(fun, maxfun=N, seed): nfev == calls of fun <= N. Non-trivial = a tree with "
    ">=2 levels and >=1 sprout (scenario tier) or a minimize budget that was exhausted; distinct = distinct case digests."
)
ASSUMPTIONS = [
    "objective invocations are attributed to a level by the per-level recorder, or (shared problem) by the deme found on the call stack",
    "use_cache is off (default)",
    "equality clauses are skipped for a level once its cutoff wrapper has forwarded N calls (the statement's own exception)",
]


def _judge(run):
    ch = run.checkers[0]
    t = run.tree
    labels = []
    if ch.after_refusal_points:
        labels.append("cutoff_exhausted_during_run")
    nt = t is not None and len(t.levels) >= 2 and sum(len(l) for l in t.levels[1:]) >= 1
    return labels, bool(nt)


from ..scenario import Objective  # noqa: E402

P = ScenarioProperty(PROP, {"max_wrappers": 3, "allow_cache": True, "families": Objective.FAMILIES + ["infwall"]}, lambda sc: [C03Checker(sc)], _judge, quick=1600, thorough=30000, machine={})


def run_shard(tier, seed, shard, nshards, tally, scale=1.0):
    from . import minimize_tier

    fs = P.run_shard(tier, seed, shard, nshards, tally, scale)
    fs += minimize_tier.run_shard(PROP, tier, seed, shard, nshards, tally, scale)
    return fs


def replay(case, kind=""):
    if kind == "minimize":
        from . import minimize_tier

        return minimize_tier.replay(PROP, case)
    return P.replay(case, kind)
