"""C15 — nearest-better clustering returns exactly the defined cluster seeds."""
from __future__ import annotations

import math

import numpy as np
from hypothesis import strategies as st

from ..common import Tally, Violation, shard_seed
from ..driver import hyp_drive
from ..refs import ref_nbc

PROP = "C15"
RULE = (
    "case = population of n in 2..60 pairwise distinct genomes in dimension 1..8 built in one of the modes uniform / clustered "
    "/ collinear / tie-heavy (floored fitness) / tightly converged (spread 1e-6..1e-13 around an offset point), "
    "distance_factor in {0} u [0.3,4], truncation in (0,1] with floor(n*t)>=2, direction; NearestBetterClustering(...).cluster() and "
    ".distances are compared with an independent O(n^2) reference (seed set by object identity, distance multiset to 1e-9 "
    "relative) and re-run on permuted, translated, power-of-two-scaled, generally scaled and mirrored (f,max)->(-f,min) inputs. "
    "Cases where some nearest-better distance is within 1e-9 relative of factor*mean are 'ambiguous' (only distances are "
    "compared); permutation is not compared when a fitness tie straddles the truncation cut or several individuals tie for the best. Non-trivial = >=2 seeds returned "
    "or a tie with the best; distinct = distinct case digests."
)
ASSUMPTIONS = [
    "genomes pairwise distinct, fitness finite (evaluated population), floor(n*truncation) >= 2",
    "for translated / generally scaled inputs the seed set is compared only when every margin |d - factor*mean| exceeds 1e-6 relative",
]

S_MODE = st.sampled_from(["uniform", "clustered", "collinear", "ties", "converged", "converged", "grid"])
S_UNIT = st.floats(0.0, 1.0, allow_nan=False)


@st.composite
def cases(draw):
    mode = draw(S_MODE)
    n = draw(st.one_of(st.integers(2, 12), st.integers(2, 60)))
    d = draw(st.integers(1, 8))
    seed = draw(st.integers(0, 2**31 - 1))
    rng = np.random.RandomState(seed)  # the case is (mode, n, d, seed, params): a pure function of Hypothesis draws
    spread_exp = draw(st.integers(6, 13))
    offset = draw(st.sampled_from([0.0, 1.2345, -20.0, 1000.5, 0.1]))
    if mode == "uniform":
        G = rng.uniform(-5, 5, size=(n, d))
    elif mode == "clustered":
        k = draw(st.integers(1, 4))
        centers = rng.uniform(-5, 5, size=(k, d))
        G = centers[rng.randint(0, k, size=n)] + rng.normal(0, 0.1, size=(n, d))
    elif mode == "collinear":
        t = rng.uniform(-5, 5, size=n)
        direction = rng.normal(size=d)
        G = np.outer(t, direction) + offset
    elif mode == "grid":
        G = rng.randint(-3, 4, size=(n, d)).astype(float)
    elif mode == "ties":
        G = rng.uniform(-5, 5, size=(n, d))
    else:
        G = offset + rng.uniform(-1, 1, size=(n, d)) * 10.0 ** (-spread_exp)
    # pairwise distinct by construction: drop duplicates, keep order
    seen, rows = set(), []
    for g in G:
        key = g.tobytes()
        if key not in seen:
            seen.add(key)
            rows.append(g)
    G = np.array(rows)
    n = len(G)
    ctr = G.mean(axis=0)
    raw = np.sum((G - ctr) ** 2, axis=1) + 0.3 * np.sin(3 * G[:, 0])
    if mode in ("ties", "grid") or draw(st.integers(0, 5)) == 0:
        q = draw(st.sampled_from([0.5, 1.0, 2.0, 1e9]))
        fit = np.floor(raw / q) if q < 1e9 else np.zeros(n)
    elif mode == "converged":
        fit = rng.uniform(0, 1, size=n) if draw(st.booleans()) else raw
    else:
        fit = raw
    factor = draw(st.sampled_from([0.3, 0.5, 1.0, 2.0, 3.0, 4.0, 0.0]))
    tmin = 2.0 / n if n >= 2 else 1.0
    trunc = draw(st.sampled_from([1.0, 1.0, 0.7, 0.5, 0.3, 0.9]))
    if int(n * trunc) < 2:
        trunc = 1.0
    return {
        "mode": mode,
        "genomes": [list(map(float, g)) for g in G],
        "fitness": [float(f) for f in fit],
        "maximize": draw(st.booleans()),
        "distance_factor": factor,
        "truncation": trunc,
        "perm_seed": draw(st.integers(0, 1000)),
        "shift": draw(st.sampled_from([0.0, 1.0, -3.7, 1000.0, 0.1])),
        "scale_pow2": draw(st.sampled_from([0.5, 2.0, 1024.0, 2.0**-20])),
        "scale": draw(st.sampled_from([3.0, 0.1, 7.3])),
    }


def _run_impl(G, fit, maximize, factor, trunc):
    from pyhms.core.individual import Individual
    from pyhms.core.problem import FunctionProblem
    from pyhms.utils.clusterization import NearestBetterClustering

    d = len(G[0])
    problem = FunctionProblem(lambda x: 0.0, bounds=np.array([[-1e9, 1e9]] * d), maximize=maximize)
    inds = [Individual(np.array(g, dtype=float), problem, float(f)) for g, f in zip(G, fit)]
    nbc = NearestBetterClustering(inds, factor, trunc)
    out = nbc.cluster()
    idx = {id(i): k for k, i in enumerate(inds)}
    seeds = [idx.get(id(o)) for o in out]
    dists = sorted(float(x) for x in nbc.distances)
    return seeds, dists


def _close_multiset(a, b, rel=1e-9) -> bool:
    if len(a) != len(b):
        return False
    for x, y in zip(sorted(a), sorted(b)):
        if abs(x - y) > rel * max(abs(x), abs(y), 1e-300):
            return False
    return True


def check_case(case) -> tuple[list[Violation], dict]:
    G = [np.array(g, dtype=float) for g in case["genomes"]]
    fit = list(case["fitness"])
    mx = bool(case["maximize"])
    factor, trunc = case["distance_factor"], case["truncation"]
    n = len(G)
    info = {"nontrivial": False, "labels": ["mode=" + case["mode"]]}
    vs: list[Violation] = []
    if n < 2 or int(n * trunc) < 2:
        info["labels"].append("skipped:too_small")
        return vs, info
    ref = ref_nbc(G, fit, mx, factor, trunc)
    # (with a single nearest-better distance d the mean is d itself and both sides compute factor*d identically:
    #  the comparison d > factor*d is exact, never ambiguous)
    ambiguous = any(m <= 1e-9 for m in ref["margins"]) and len(ref["nbd"]) > 1
    safe = all(m > 1e-6 for m in ref["margins"])
    if ambiguous:
        info["labels"].append("ambiguous")
    if ref["cut_tie"]:
        info["labels"].append("tie_at_truncation_cut")
    best_ties = sum(1 for i in ref["kept"] if fit[i] == fit[ref["kept"][0]]) > 1
    info["nontrivial"] = len(ref["seeds"]) >= 2 or best_ties
    tag = "/converged" if case["mode"] == "converged" else ""

    def fail(sub, detail):
        vs.append(Violation(PROP, f"C15/{sub}{tag}", detail))

    seeds, dists = _run_impl(G, fit, mx, factor, trunc)
    if None in seeds:
        fail("foreign-individual-returned", "cluster() returned an individual that is not in the input")
        return vs, info
    if len(set(seeds)) != len(seeds):
        fail("duplicate-seed", f"cluster() returned an individual twice: {sorted(seeds)}")
    want_d = sorted(ref["nbd"].values())
    if not _close_multiset(dists, want_d):
        fail(
            "distances-differ",
            f"n={n} kept={len(ref['kept'])}: .distances has {len(dists)} entries (mean {np.mean(dists) if dists else None!r}); the definition gives {len(want_d)} nearest-better distances (mean {ref['mean']!r})",
        )
    if not ambiguous and set(seeds) != ref["seeds"]:
        missing = sorted(ref["seeds"] - set(seeds))
        extra = sorted(set(seeds) - ref["seeds"])
        best = ref["kept"][0]
        sub = "best-not-returned" if best in missing else ("seed-missing" if missing else "extra-seed")
        fail(f"seed-set/{sub}", f"n={n} dim={len(G[0])} factor={factor} trunc={trunc} maximize={mx}: cluster() returned indices {sorted(seeds)}; the definition gives {sorted(ref['seeds'])} (missing {missing}, extra {extra})")
    if vs:
        return vs, info
    base = set(seeds)
    # metamorphic re-runs ---------------------------------------------------------------------
    # (with several individuals tied for the best, "the best one" - and with it the result - legitimately
    #  depends on which of them comes first: the permutation relation is only stated for a unique best)
    if not ref["cut_tie"] and not ambiguous and not best_ties:
        perm = np.random.RandomState(case["perm_seed"]).permutation(n)
        s2, d2 = _run_impl([G[i] for i in perm], [fit[i] for i in perm], mx, factor, trunc)
        back = {int(perm[k]) for k in s2 if k is not None}
        if back != base:
            fail("metamorphic/permutation", f"result depends on input order: {sorted(base)} vs {sorted(back)} after permuting")
    if not ambiguous:
        s3, d3 = _run_impl(G, [-f for f in fit], not mx, factor, trunc)
        if set(s3) != base:
            fail("metamorphic/mirror", f"(f, maximize={mx}) gives {sorted(base)} but (-f, maximize={not mx}) gives {sorted(set(s3))}")
        c = case["scale_pow2"]
        s4, d4 = _run_impl([g * c for g in G], fit, mx, factor, trunc)
        if len({(g * c).tobytes() for g in G}) == n and set(s4) != base:
            fail("metamorphic/scale-pow2", f"scaling all genomes by {c} changes the result: {sorted(base)} vs {sorted(set(s4))}")
    if safe:
        sh = case["shift"]
        Gs = [g + sh for g in G]
        if len({g.tobytes() for g in Gs}) == n:
            r5 = ref_nbc(Gs, fit, mx, factor, trunc)
            if all(m > 1e-6 for m in r5["margins"]) and r5["seeds"] == ref["seeds"]:
                s5, _ = _run_impl(Gs, fit, mx, factor, trunc)
                if set(s5) != base:
                    fail("metamorphic/translation", f"translating all genomes by {sh} changes the result: {sorted(base)} vs {sorted(set(s5))}")
        c = case["scale"]
        Gc = [g * c for g in G]
        if len({g.tobytes() for g in Gc}) == n:
            r6 = ref_nbc(Gc, fit, mx, factor, trunc)
            if all(m > 1e-6 for m in r6["margins"]) and r6["seeds"] == ref["seeds"]:
                s6, _ = _run_impl(Gc, fit, mx, factor, trunc)
                if set(s6) != base:
                    fail("metamorphic/scale", f"scaling all genomes by {c} changes the result: {sorted(base)} vs {sorted(set(s6))}")
    return vs, info


def run_shard(tier, seed, shard, nshards, tally: Tally, scale=1.0):
    n = max(5, int({"quick": 20000, "thorough": 600000}[tier] * scale / nshards))

    def body(case):
        vs, info = check_case(case)
        for lb in info["labels"]:
            tally.label(lb)
        sample = {k: case[k] for k in ("mode", "maximize", "distance_factor", "truncation")}
        sample["n"] = len(case["genomes"])
        sample["dim"] = len(case["genomes"][0]) if case["genomes"] else 0
        sample["first_genomes"] = case["genomes"][:3]
        sample["first_fitness"] = case["fitness"][:3]
        tally.add_case(case, info["nontrivial"], sample=sample)
        return vs

    return hyp_drive(PROP, cases(), body, tally=tally, max_examples=n, seed=shard_seed(seed, shard), kind="direct")


def replay(case, kind=""):
    return check_case(case)[0]
