"""C14 — a seeded run is exactly reproducible (re-run / fresh interpreters / hash seeds)."""
from __future__ import annotations

import json
import os
import random
import subprocess
import sys
import tempfile

import numpy as np
from hypothesis import strategies as st

from ..c14_worker import summary_fingerprint
from ..common import VERIF_DIR, HarnessError, Tally, Violation, shard_seed
from ..digest import tree_diff, tree_digest
from ..driver import Failure, hyp_drive
from ..harness import Run
from ..runprop import labels_of
from ..scenario import scenario_summary, scenarios
from . import minimize_tier

PROP = "C14"
RULE = (
    "generated complete configurations over all engine mixes, both mechanisms, hibernation on/off, each with a drawn "
    "options.random_seed: (a) in-process: run, scramble numpy's and random's global state with drawn junk, run again from a "
    "fresh configuration - the tree digests (structure, ids, start metaepochs, every genome and fitness, evaluation counts, "
    "flags) and summary() texts must be equal; (b) cross-process: every scenario of the shard is executed again in two fresh "
    "interpreters with PYTHONHASHSEED=1 and =12345 and different junk pre-draws and must give the same digest and summary; "
    "(c) minimize(seed=...) twice with scrambled state. Non-trivial = >=2 demes and at least one engine with its own sampler "
    "(CMA-ES, SHADE, LHS, Sobol, MWEA); distinct = distinct scenario digests."
)
ASSUMPTIONS = [
    "objective deterministic; StatsGatheringProblem's timing line is removed from summary() before comparing",
    "three interpreters / hash seeds and one junk state per run are sampled, not enumerated",
]

OWN_SAMPLER = {"CMA", "SHADE", "LHS", "Sobol", "MWEA"}


def _run(sc, junk):
    np.random.seed(junk % (2**31))
    random.seed(junk)
    np.random.rand(junk % 13)
    for _ in range(junk % 7):
        random.random()
    r = Run(sc)
    r.run_all()
    return r


def check_inprocess(sc, junk1, junk2):
    r1 = _run(sc, junk1)
    r2 = _run(sc, junk2)
    vs = []
    if r1.timed_out or r2.timed_out:
        return vs, r1, None  # a wall-budget expiry is inconclusive, never a difference between the runs
    if r1.crash or r2.crash:
        if bool(r1.crash) != bool(r2.crash):
            vs.append(Violation(PROP, "C14/rerun/crash-only-once", f"one of two identical seeded runs raised: {(r1.crash or r2.crash)[0]}"))
        return vs, r1, None
    d1, d2 = tree_digest(r1.tree), tree_digest(r2.tree)
    engines = "/".join(lv["engine"] for lv in sc["levels"])
    if sc["objective"]["family"] == "nanhole":
        # which of several NaN individuals a report shows is decided by coin flips at the time of the report
        # (FunctionProblem.worse_than): only the trees are compared for NaN-valued objectives
        if d1 != d2:
            vs.append(Violation(PROP, "C14/rerun/trees-differ", f"engines {engines} (NaN-valued objective), seed {sc['options']['random_seed']}: two runs of the same configuration differ: " + tree_diff(r1.tree, r2.tree)))
        return vs, r1, (d1, "")
    if d1 != d2:
        vs.append(Violation(PROP, "C14/rerun/trees-differ", f"engines {engines}, seed {sc['options']['random_seed']}: two runs of the same configuration differ after scrambling the global generators: " + tree_diff(r1.tree, r2.tree)))
    elif summary_fingerprint(r1.tree) != summary_fingerprint(r2.tree):
        vs.append(Violation(PROP, "C14/rerun/summaries-differ", f"engines {engines}: equal trees but different summary() texts"))
    vs += check_reuse(sc, d1, engines, r2)
    return vs, r1, (d1, summary_fingerprint(r1.tree))


def _stateless_config(sc) -> bool:
    if any(lv.get("wrappers") for lv in sc["levels"]):
        return False
    if any(lv["lsc"]["kind"] in ("Scripted", "Queue") for lv in sc["levels"]):
        return False
    if sc["gsc"]["kind"] == "SingularProblemPrecisionReached":
        return False
    g = sc["sprout"].get("generator", {})
    return g.get("kind") not in ("Scripted", "Queue")


def check_reuse(sc, d1, engines, r_same):
    """'the same configuration' also means the same objects: (a) the sprout-mechanism objects of an earlier,
    different run handed to this configuration, (b) the very same TreeConfig object run a second time"""
    from pyhms.tree import DemeTree

    vs = []
    mode = sc.get("reuse_mode")
    if mode == "mechanism" and sc["sprout"].get("generator", {}).get("kind") not in ("Scripted", "Queue"):
        sc0 = dict(sc)
        sc0["options"] = dict(sc["options"], random_seed=(int(sc["options"]["random_seed"]) + 17) % (2**31))
        r0 = Run(sc0)
        r0.run_all()
        if r0.crash or r0.tree is None or r0.timed_out:
            return vs
        r3 = Run(sc, reuse_from=r0)
        r3.run_all()
        if r3.crash or r3.tree is None:
            return vs
        if tree_digest(r3.tree) != d1:
            vs.append(Violation(PROP, "C14/reused-mechanism/trees-differ", f"engines {engines}: a run whose sprout-mechanism objects had served another tree before differs from the run with fresh objects: " + tree_diff(r_same.tree, r3.tree)))
    elif mode == "config" and _stateless_config(sc):
        try:
            t2 = DemeTree(r_same.config)
            t2.run()
        except Exception:  # noqa: BLE001
            return vs
        if tree_digest(t2) != d1:
            vs.append(Violation(PROP, "C14/reused-config/trees-differ", f"engines {engines}: running the same TreeConfig object a second time gives a different tree: " + tree_diff(r_same.tree, t2)))
    return vs


def run_subprocess(scs: list, hashseed: int, junk: int):
    with tempfile.NamedTemporaryFile("w", suffix=".json", delete=False, dir="/tmp") as f:
        json.dump(scs, f)
        path = f.name
    try:
        env = dict(os.environ, PYTHONHASHSEED=str(hashseed), PYTHONPATH=VERIF_DIR + os.pathsep + os.environ.get("PYTHONPATH", ""))
        p = subprocess.run([sys.executable, "-W", "ignore", "-m", "pbt.c14_worker", path, str(junk)], capture_output=True, text=True, env=env, cwd=VERIF_DIR, timeout=3600)
        for ln in p.stdout.splitlines():
            if ln.startswith("C14RESULT "):
                return json.loads(ln[len("C14RESULT "):])
        raise HarnessError(f"C14 worker produced no result (exit {p.returncode}): {p.stderr[-1500:]}")
    finally:
        os.unlink(path)


def run_shard(tier, seed, shard, nshards, tally: Tally, scale=1.0):
    n = max(3, int({"quick": 800, "thorough": 20000}[tier] * scale / nshards))
    batch: list[tuple[dict, tuple]] = []

    def body(case):
        sc, j1, j2 = case
        sc = dict(sc)
        sc["reuse_mode"] = ["none", "mechanism", "config"][(j1 + j2) % 3]
        vs, r1, fp = check_inprocess(sc, j1, j2)
        if r1.crash:
            tally.aborted[r1.crash[0]] = tally.aborted.get(r1.crash[0], 0) + 1
        for lb in labels_of(r1):
            tally.label(lb)
        t = r1.tree
        engines = {lv["engine"] for lvl, lv in enumerate(sc["levels"]) if t is not None and lvl < len(t.levels) and t.levels[lvl]}
        nt = t is not None and not r1.crash and len(t.all_demes) >= 2 and bool(engines & OWN_SAMPLER)
        for e in engines & OWN_SAMPLER:
            tally.label("own_sampler_ran=" + e)
        sample = scenario_summary(sc)
        sample["outcome"] = r1.shape()
        tally.add_case(sc, bool(nt), sample=sample)
        if fp is not None and not vs:
            batch.append((sc, fp))
        return vs

    from ..scenario import Objective

    strat = st.tuples(scenarios({"families": Objective.FAMILIES + ["nanhole"], "allow_cache": True}), st.integers(0, 10**6), st.integers(0, 10**6))
    fs = hyp_drive(PROP, strat, body, tally=tally, max_examples=n, seed=shard_seed(seed, shard), kind="rerun")
    for f in fs:
        if isinstance(f.case, list):
            f.case = {"scenario": f.case[0], "junk": [f.case[1], f.case[2]]}
    # cross-process: the whole batch in fresh interpreters with other hash seeds
    if batch:
        scs = [b[0] for b in batch]
        for hs, junk in ((1, 11 + shard), (12345, 977 + shard)):
            res = run_subprocess(scs, hs, junk)
            tally.count("cross_process_runs", len(res))
            res_again = None
            for i, ((sc, fp), got) in enumerate(zip(batch, res)):
                if fp[1] == "":
                    got = [got[0], ""]
                if got[0] == "CRASH" and got[1] == "timeout":
                    tally.aborted["timeout"] = tally.aborted.get("timeout", 0) + 1  # inconclusive, never a violation
                    continue
                if got[0] == "CRASH" or tuple(got) != tuple(fp):
                    # Classify before reporting: the scenario is run twice more alone in fresh interpreters (same hash
                    # seed) and the whole batch once more (a run may depend on the runs made before it in the same
                    # process: that is process state too; its replay is the batch prefix).
                    norm = (lambda g: [g[0], ""]) if fp[1] == "" else (lambda g: g)
                    alone = [norm(run_subprocess([sc], hs, junk)[0]) for _ in range(2)]
                    if res_again is None:
                        res_again = run_subprocess(scs, hs, junk)
                    in_batch = norm(res_again[i])
                    engines = "/".join(lv["engine"] for lv in sc["levels"])
                    case = {"scenario": sc, "hashseed": hs, "junk": junk}
                    if any(tuple(g) != tuple(fp) for g in alone):
                        sig = "C14/cross-process/differs"
                        got = next(g for g in alone if tuple(g) != tuple(fp))
                    elif tuple(in_batch) != tuple(fp):
                        sig = "C14/cross-process/differs-after-earlier-runs-in-the-process"
                        got = in_batch
                        case["batch_prefix"] = scs[: i + 1]
                    else:
                        # seen once, not again: still a run that depended on something other than configuration and seed
                        sig = "C14/cross-process/differs-once-not-on-rerun"
                        tally.count("cross_process_mismatch_not_reproduced")
                    v = Violation(PROP, sig, f"engines {engines}: a fresh interpreter with PYTHONHASHSEED={hs} produced digest/summary {got} but the in-process run produced {list(fp)}")
                    if not any(x.signature == sig for x in fs):
                        fs.append(Failure(PROP, sig, case, [v], "cross"))
    # minimize(seed=...) twins
    def body_min(case):
        from pyhms import minimize

        vs = []
        box = case["box"]
        outs = []
        for junk in (case["seed"] % 1000 + 1, case["seed"] % 777 + 5):
            np.random.seed(junk)
            random.seed(junk)
            np.random.rand(junk % 11)
            res, fun, _ = minimize_tier._run(case, maxfun=case.get("maxfun"), maxiter=case.get("maxiter"))
            outs.append((np.asarray(res.x).tobytes(), float(res.fun), int(res.nfev), int(res.nit), len(fun.vs)))
        if outs[0] != outs[1]:
            vs.append(Violation(PROP, "C14/minimize/differs", f"minimize(seed={case['seed']}) gave (fun,nfev,nit)={outs[0][1:]} and then {outs[1][1:]}"))
        tally.add_case({"minimize": case}, outs[0][3] >= 1, sample={"minimize": case})
        tally.count("minimize_cases")
        return vs

    fs += hyp_drive(PROP, minimize_tier.cases(), body_min, tally=tally, max_examples=max(2, n // 8), seed=shard_seed(seed, shard, 5), kind="minimize")
    return fs


def replay(case, kind=""):
    if kind == "minimize" or "minimize" in case:
        return []
    if isinstance(case, list):
        case = {"scenario": case[0], "junk": [case[1], case[2]]}
    sc = dict(case["scenario"])
    j = case.get("junk", [3, 4])
    if not isinstance(j, int):
        sc.setdefault("reuse_mode", ["none", "mechanism", "config"][(j[0] + j[1]) % 3])
    if isinstance(j, int):
        j = [3, j]
    vs, r1, fp = check_inprocess(sc, j[0], j[1])
    if fp is not None and case.get("batch_prefix"):
        got = run_subprocess(case["batch_prefix"], int(case.get("hashseed", 1)), int(j[1]))[-1]
        if fp[1] == "":
            got = [got[0], ""]
        if tuple(got) != tuple(fp):
            vs.append(Violation(PROP, "C14/cross-process/differs-after-earlier-runs-in-the-process", f"after {len(case['batch_prefix']) - 1} earlier runs in the same interpreter: {got} vs in-process {list(fp)}"))
    if fp is not None:
        for hs in sorted({1, 12345, int(case.get("hashseed", 1))}):
            got = run_subprocess([sc], hs, 5)[0]
            if fp[1] == "":
                got = [got[0], ""]
            if tuple(got) != tuple(fp):
                vs.append(Violation(PROP, "C14/cross-process/differs", f"PYTHONHASHSEED={hs}: {got} vs in-process {list(fp)}"))
    return vs
