"""TreeMachine: adversarial histories. Hypothesis decides, step by step, which demes stop (queue-driven
user LSCs), what is proposed for sprouting (queue-driven user generator; the proposals still pass the
real filter chains and the real _do_sprout), when somebody looks at the tree, when it is dumped and
reloaded (the run continues on the LOADED tree) and when the global generators are scrambled.

TreeDriver is plain Python (used for replay too); make_tree_machine wraps it in a RuleBasedStateMachine."""
from __future__ import annotations

import os
import random
import shutil
import tempfile

import numpy as np
from hypothesis import strategies as st
from hypothesis.stateful import RuleBasedStateMachine, initialize, invariant, precondition, rule

from .common import Tally, Violation
from .digest import tree_diff, tree_digest
from .driver import Collector
from .harness import Run, crash_bucket
from .scenario import scenario_summary, scenarios

MACHINE_PROFILE = {
    "levels": (2, 3),
    "lsc_kinds": ["Queue", "Queue", "Queue", "MetaepochLimit", "DontStop"],
    "sprout_kinds": ["composed"],
    "generators": ["Queue"],
    "cap": (8, 14),
    "level_limit_max": 3,
    "force_level_limit": True,
    "gsc_kinds": ["MetaepochLimit", "SingularProblemEvalLimitReached", "FitnessEvalLimitReached", "AllStopped", "NoActiveNonrootDemes", "Never", "Never", "Never", "Never"],
    "sprouty": True,
    "level_limit_min": 2,
    "root_lsc_kinds": ["Queue", "DontStop", "DontStop", "DontStop"],
}

S_STOPS = st.lists(st.sampled_from([False, False, False, True]), max_size=8)
S_PROPOSALS = st.lists(st.lists(st.integers(0, 11), min_size=0, max_size=3), min_size=1, max_size=6)


def _layers(problem):
    from pyhms.core.problem import ProblemWrapper

    out = []
    p = problem
    while isinstance(p, ProblemWrapper):
        out.insert(0, p)
        p = p._inner
    return out


class TreeDriver:
    def __init__(self, sc: dict, make_checkers, prop: str, roundtrip_checks: bool = False, crash_is_violation: bool = False, run_kwargs: dict | None = None):
        self.sc = sc
        self.prop = prop
        self.ops: list[dict] = []
        self.run = Run(sc, checkers=make_checkers(sc), **(run_kwargs or {}))
        self.stopped = False
        self.extra: list[Violation] = []
        self.roundtrip_checks = roundtrip_checks
        self.crash_is_violation = crash_is_violation
        self.reloads = 0
        self.steps = 0
        self.looks = 0
        self.ok = self.run.start()
        if self.ok:
            try:
                self.stopped = self.run.head()
            except Exception as e:  # noqa: BLE001
                self.run.crash = (crash_bucket(e), str(e))
                self.ok = False

    # ------------------------------------------------------------------------------------------
    def case(self) -> dict:
        return {"scenario": self.sc, "ops": list(self.ops)}

    def violations(self) -> list[Violation]:
        vs = list(self.run.violations) + self.extra
        if self.run.crash:
            if self.crash_is_violation and not self.run.timed_out:
                vs.append(Violation(self.prop, f"{self.prop}/run-raised/{self.run.crash[0]}", "pyhms raised: " + self.run.crash[1][-500:]))
            else:
                return []
        return vs

    def apply(self, op: dict) -> None:
        if not self.ok or self.run.crash:
            return
        self.ops.append(op)
        k = op["op"]
        from .harness import CaseTimeout, time_limit

        try:
          with time_limit():
            if k == "step":
                if self.stopped:
                    return
                d = self.run.decisions
                d.stops[:] = list(op.get("stops", []))
                d.proposals[:] = [list(p) for p in op.get("proposals", [])]
                self.run.tree.run_step()
                self.steps += 1
                self.stopped = self.run.head()
            elif k == "run":
                # hand the advanced tree to the real run() (mixing run_step() and run() is public API use)
                if not self.stopped:
                    self.run.tree.run()
                    self.stopped = True
            elif k == "look":
                self._look(op.get("which", 0))
            elif k == "reload":
                self._reload()
            elif k == "scramble":
                j = int(op.get("junk", 0))
                np.random.seed(j % (2**31))
                random.seed(j)
        except CaseTimeout as e:
            self.run.crash = ("timeout", str(e))
            self.run.timed_out = True
        except Exception as e:  # noqa: BLE001
            self.run.crash = (crash_bucket(e), f"{type(e).__name__}: {e}")

    # ------------------------------------------------------------------------------------------
    def _look(self, which: int):
        from .checkers import C20Checker

        self.looks += 1
        for ch in self.run.checkers:
            if isinstance(ch, C20Checker):
                ch._check_reports(self.run)
                ch._check_purity(self.run)
                return
        t = self.run.tree
        [lambda: t.summary(), lambda: t.tree(), lambda: t.best_individual, lambda: t.all_individuals, lambda: [d.centroid for _, d in t.all_demes]][which % 5]()

    def _reload(self):
        from pyhms.tree import DemeTree

        from .checkers import _rng_state

        tree = self.run.tree
        tmp = tempfile.mkdtemp(prefix="pyhms_tm_", dir="/tmp")
        try:
            path = os.path.join(tmp, "snap.pkl")
            nan_obj = self.sc["objective"]["family"] == "nanhole"
            summary_fingerprint = (lambda t: "") if nan_obj else (lambda t: t.summary())  # full text incl. timing statistics
            d0 = tree_digest(tree)
            s0 = summary_fingerprint(tree)
            r0 = _rng_state()
            c0 = len(self.run.trace.calls)
            tree.pickle_dump(path)
            loaded = DemeTree.pickle_load(path)
            if self.roundtrip_checks:
                p = self.prop

                def fail(sub, detail):
                    if not any(v.signature == f"{p}/{sub}" for v in self.extra):
                        self.extra.append(Violation(p, f"{p}/{sub}", detail))

                if tree_digest(tree) != d0 or summary_fingerprint(tree) != s0:
                    fail("dump-changed-live-tree", f"pickle_dump at metaepoch {tree.metaepoch_count} changed the live tree")
                if _rng_state() != r0:
                    fail("dump-consumed-randomness", "pickle_dump / pickle_load changed the state of a global random generator")
                if len(self.run.trace.calls) != c0:
                    fail("dump-evaluated", "pickle_dump invoked the objective")
                if tree_digest(loaded) != d0:
                    fail("loaded-tree-differs", f"snapshot at metaepoch {tree.metaepoch_count}: loaded tree differs: " + tree_diff(tree, loaded))
                elif summary_fingerprint(loaded) != s0:
                    fail("loaded-summary-differs", "the loaded tree's summary() differs from the original's")
                if bool(loaded._gsc.inner(loaded)) != bool(self.run.inner_gsc(tree)):
                    fail("loaded-gsc-verdict", "global stop condition verdict differs between live and loaded tree")
        finally:
            shutil.rmtree(tmp, ignore_errors=True)
        # carry on with the LOADED tree: re-point the run at the restored object graph
        run = self.run
        run.tree = loaded
        run.gsc = loaded._gsc
        run.inner_gsc = loaded._gsc.inner
        run.trace = loaded._gsc.trace
        run.trace.listeners = run.checkers
        run.trace.run = run
        run.level_problems = [lv.problem for lv in loaded.config.levels]
        run.level_layers = [_layers(lv.problem) for lv in loaded.config.levels]
        run.mechanism = loaded._sprout_mechanism
        run.config = loaded.config
        dec = None
        for lv in loaded.config.levels:
            inner = getattr(lv.lsc, "inner", None)
            if hasattr(inner, "decisions"):
                dec = inner.decisions
        gen = getattr(loaded._sprout_mechanism.inner, "candidates_generator", None)
        gen = getattr(gen, "inner", gen)
        if hasattr(gen, "decisions"):
            if dec is not None and gen.decisions is not dec:
                self.extra.append(Violation(self.prop, f"{self.prop}/harness/decisions-split", "restored observers no longer share one decisions object"))
            dec = gen.decisions
        if dec is not None:
            run.decisions = dec
        self.reloads += 1

    def finish(self):
        self.run.finish()


def make_tree_machine(prop: str, make_checkers, judge, coll: Collector, tally: Tally, profile: dict | None = None, roundtrip_checks=False, crash_is_violation=False, allow_reload=True, allow_look=True, run_kwargs=None):
    prof = dict(MACHINE_PROFILE)
    prof.update(profile or {})

    class TreeMachine(RuleBasedStateMachine):
        def __init__(self):
            super().__init__()
            self.drv: TreeDriver | None = None

        @initialize(sc=scenarios(prof))
        def setup(self, sc):
            if coll.quiet():
                return
            self.drv = TreeDriver(sc, make_checkers, prop, roundtrip_checks, crash_is_violation, run_kwargs)

        def _go(self, op):
            if coll.quiet() or self.drv is None:
                return
            self.drv.apply(op)

        @rule(stops=S_STOPS, proposals=S_PROPOSALS)
        def step(self, stops, proposals):
            self._go({"op": "step", "stops": stops, "proposals": proposals})

        @rule(stops=S_STOPS, proposals=S_PROPOSALS)
        def step_again(self, stops, proposals):
            self._go({"op": "step", "stops": stops, "proposals": proposals})

        @rule(proposals=S_PROPOSALS)
        def step_nobody_stops(self, proposals):
            self._go({"op": "step", "stops": [], "proposals": proposals})

        @rule(stops=S_STOPS)
        def step_default_proposals(self, stops):
            self._go({"op": "step", "stops": stops, "proposals": []})

        if allow_look:

            @rule(which=st.integers(0, 4))
            def look(self, which):
                self._go({"op": "look", "which": which})

        if allow_reload:

            @rule()
            def dump_and_reload(self):
                self._go({"op": "reload"})

        @rule()
        def finish_with_run(self):
            self._go({"op": "run"})

        @rule(junk=st.integers(0, 10**6))
        def scramble_rng(self, junk):
            self._go({"op": "scramble", "junk": junk})

        @invariant()
        def monitors_quiet(self):
            if coll.quiet() or self.drv is None:
                return
            vs = self.drv.violations()
            if vs:
                coll.handle(self.drv.case(), vs)

        def teardown(self):
            if coll.quiet() or self.drv is None:
                return
            d = self.drv
            d.finish()
            labels, nontrivial = judge(d.run)
            for lb in labels:
                tally.label("machine:" + lb)
            tally.label("machine:steps=" + ("0" if d.steps == 0 else "1-3" if d.steps <= 3 else "4-8" if d.steps <= 8 else "9+"))
            if d.reloads:
                tally.label("machine:reloaded")
            if d.looks:
                tally.label("machine:looked")
            if d.run.crash:
                tally.aborted[d.run.crash[0]] = tally.aborted.get(d.run.crash[0], 0) + 1
            t = d.run.tree
            if t is not None:
                tally.label("machine:height_reached=%d" % sum(1 for l in t.levels if l))
            sample = {"machine": scenario_summary(d.sc), "ops": d.ops[:10], "outcome": d.run.shape()}
            tally.add_case(d.case(), bool(nontrivial) and not d.run.crash, sample=sample)
            tally.count("machine_cases")
            tally.count("machine_steps", d.steps)

    return TreeMachine


def replay_machine(case: dict, prop: str, make_checkers, roundtrip_checks=False, crash_is_violation=False, run_kwargs=None) -> list[Violation]:
    drv = TreeDriver(case["scenario"], make_checkers, prop, roundtrip_checks, crash_is_violation, run_kwargs)
    for op in case["ops"]:
        drv.apply(op)
        vs = drv.violations()
        if vs:
            return vs
    drv.finish()
    return drv.violations()
