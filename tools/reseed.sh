#!/bin/bash
# Re-run every confirmed seeded change against the current checks (4 at a time).
# usage: tools/reseed.sh [scale]      results: seeded/<name>/meta.json and a summary on stdout
cd "$(dirname "$0")/.."
SCALE=${1:-1.0}
run() { tools/eval_seed.py seeded/$1 $1 --scale $SCALE > /tmp/reseed_$1.log 2>&1; echo "$1: $(grep -E 'CAUGHT|MISSED|HARNESS' /tmp/reseed_$1.log | tr '\n' ' ' | cut -c1-160)"; rm -f /tmp/reseed_$1.log; }
export -f run; export SCALE
ls seeded | xargs -P 4 -n 1 bash -c 'run $0'
