#!/bin/bash
# Line coverage of /repo/pyhms reached by the checks (not a check itself; a generator-completeness measurement).
# Every property runs in one shard at a small scale under coverage.py; the combined report is printed.
# usage: tools/coverage.sh [scale]      (scratch data under /tmp/pyhms_cov, removed afterwards)
set -e
cd "$(dirname "$0")/.."
D=/tmp/pyhms_cov; rm -rf $D; mkdir -p $D
cat > $D/covrc <<RC
[run]
source = /repo/pyhms
parallel = True
data_file = $D/.coverage
RC
export OMP_NUM_THREADS=1 OPENBLAS_NUM_THREADS=1 MPLBACKEND=Agg PYTHONHASHSEED=0
seq -w 1 20 | xargs -P 16 -I{} sh -c "VERIF_OUT_DIR=$D/out /venv/bin/python -W ignore -m coverage run --rcfile=$D/covrc -m pbt.run C{} --shards 1 --scale ${1:-0.04} 2>&1 | grep -E 'tier=|HARNESS|VIOLATION' | cut -c1-100"
cd $D && /venv/bin/python -m coverage combine --rcfile=covrc >/dev/null 2>&1
/venv/bin/python -m coverage report --rcfile=covrc -m --omit="*/visualisation/*,*/cluster/*" 2>&1 | cut -c1-200
cd / && rm -rf $D
