#!/venv/bin/python
"""Regenerates /verif/MANIFEST.json from the table below (kept valid at all times)."""
import json
import os

HERE = os.path.dirname(os.path.dirname(os.path.abspath(__file__)))

CHECKS = {
    "C01": ("scenario runs with a recording objective + engine steps on face/corner populations + minimize()", "3/C01", "validity predicate lower<=x<=upper over every evaluated / stored point (Hypothesis-generated scenarios and operator calls)"),
    "C02": ("scenario runs; re-evaluation with a pure objective copy and generation digests over time", "3/C02", "re-evaluation oracle + digest-over-time invariant on generated runs (Hypothesis)"),
    "C03": ("scenario runs; counters vs objective call log at every GSC consultation; minimize budgets", "3/C03", "invariant over the history: counters == call log at every stop-condition consultation (Hypothesis scenarios)"),
    "C04": ("scenario runs; brute-force best at every boundary; minimize budget pairs", "3/C04", "brute-force reference + monotonicity + prefix differential across budgets (Hypothesis)"),
    "C05": ("scenario runs under the real run(); invariants over the stop-condition timeline", "3/C05", "invariant over the GSC-consultation timeline of generated runs (Hypothesis)"),
    "C06": ("scenario runs; per-step lifecycle comparison of deme snapshots and LSC/GSC verdict logs", "3/C06", "per-step lifecycle model vs census on generated histories (Hypothesis)"),
    "C07": ("scenario runs; structural invariants and seed provenance at every boundary / sprouting round", "3/C07", "structural invariants + seed provenance against population snapshots (Hypothesis)"),
    "C08": ("scenario runs with small level limits; census at every GSC consultation and around every round", "3/C08", "invariant at every timeline entry of generated histories (Hypothesis)"),
    "C09": ("scenario runs with distance filters; centroids and thresholds recomputed by the observer", "3/C09", "recomputed centroids / reference NBC threshold vs accepted seeds (Hypothesis)"),
    "C10": ("scenario runs with observed generator/filter chains + direct calls of generators and filters on the reached tree with generated candidate sets", "3/C10", "set-valued reference specification of each sprout component on observed and generated calls (Hypothesis)"),
    "C11": ("scenario runs with >=2 generations per metaepoch; call-log segments joined with histories; engine proxy", "3/C11", "call-log segment join + engine pass-through proxy on generated runs (Hypothesis)"),
    "C12": ("scenario runs; monotone / dominance / size invariants over all consecutive generation pairs", "3/C12", "monotonicity and dominance invariants over generated histories (Hypothesis)"),
    "C13": ("twin calls of every comparison-based component and twin seeded runs on (f,max) / (-f,min)", "3/C13", "metamorphic relation (f,maximize) vs (-f,minimize) on generated decisions and whole runs (Hypothesis)"),
    "C14": ("scenario re-runs after scrambling the global generators, and in fresh interpreters with other PYTHONHASHSEED values", "3/C14", "differential on tree digests: re-run / fresh interpreters / hash seeds (Hypothesis + subprocess)"),
    "C15": ("generated populations (uniform/clustered/collinear/tied/converged) vs an O(n^2) reference and metamorphic re-runs", "3/C15", "independent O(n^2) reference model + metamorphic relations (permutation, translation, scaling, mirroring) (Hypothesis)"),
    "C16": ("rule-based state machine over wrapper stacks and call sequences vs a reference model; all 341 stack shapes enumerated", "3/C16", "model-based stateful testing (Hypothesis RuleBasedStateMachine) + exhaustive stack-shape enumeration"),
    "C17": ("constructed vectors around generated boxes vs an exact rational reference; exhaustive adversarial grid", "3/C17", "exact rational reference model + validity predicate on constructed inputs (Hypothesis + enumerated grid)"),
    "C18": ("scenario runs with hibernation; automaton model fed by observed sprouting rounds; per-step progress", "3/C18", "reference automaton vs flags + per-step progress safety property (Hypothesis)"),
    "C19": ("scenario x snapshot point: dump/load round trip, live tree and RNG untouched, continued runs of both trees under the C03/C04/C07/C08 monitors", "3/C19", "round-trip oracle on digests/summaries/RNG state + invariant monitors on the continued loaded tree (Hypothesis)"),
    "C20": ("scenario runs; parsed reports vs attributes at every boundary; accessor purity; blind re-run differential", "3/C20", "parsed-report oracle + purity differential (looked-at run vs blind run) (Hypothesis)"),
}

NOT_YET = {}


def main():
    checks = []
    for pid in sorted(CHECKS):
        what, ref, tech = CHECKS[pid]
        if not os.path.exists(os.path.join(HERE, "pbt", "props", pid.lower() + ".py")):
            continue
        checks.append(
            {
                "property_id": pid,
                "quick_cmd": f"./check {pid} --tier quick",
                "thorough_cmd": f"./check {pid} --tier thorough",
                "evidence_file": f"evidence/{pid}.json",
                "replay_cmd_template": f"./check {pid} --replay {{path}}",
                "engine": "pbt",
                "level_claimed": {
                    "category": "exploration",
                    "text": f"Generated-input search with an explicit oracle: {what}. It shows the property on every case explored (counts, non-trivial share and label histogram are in the evidence file) and shrinks any failure to a replay file; it cannot show absence.",
                    "design_ref": f"DESIGN.md section {ref}",
                },
                "level_note": "Trusted: Hypothesis 6.168 as the generator/shrinker, the observers in pbt/harness.py (pass-through objects handed to pyhms through its documented extension points), numpy/scipy/cma as installed. Runs against `import pyhms` = /repo's working tree (development install).",
                "technique": tech,
            }
        )
    claimed = {c["property_id"] for c in checks}
    na = [
        {"property_id": f"C{i:02d}", "reason": NOT_YET.get(f"C{i:02d}", "check under construction in this session (not yet registered); the design in DESIGN.md applies")}
        for i in range(1, 21)
        if f"C{i:02d}" not in claimed
    ]
    man = {
        "version": 1,
        "setup_cmd": "/venv/bin/pip install --no-index --find-links /opt/veriftools/wheels hypothesis >/dev/null 2>&1; /venv/bin/python -c \"import hypothesis, pyhms, numpy, scipy, cma, dill; print('setup ok', hypothesis.__version__)\"",
        "hooks": {
            "guard": "AGH_A2S_PYHMS_VERIF",
            "enable": "no source hooks: every observer is a pass-through object handed to pyhms through its documented extension points; ./check exports AGH_A2S_PYHMS_VERIF=1 only for uniformity",
            "baseline_off_cmd": "cd /repo && /venv/bin/python -m pytest -ra -q -p no:cacheprovider --timeout=900 --continue-on-collection-errors",
            "source_commits": [],
            "add_only": True,
        },
        "engines": [
            {"name": "pbt", "path": "pbt/", "serves_properties": sorted(claimed), "kind_free_text": "Hypothesis-driven property-based testing: scenario generator + monitored runs + reference models; 16 seeded shards per check"}
        ],
        "checks": checks,
        "notes": "All checks: exit 0 held / exit 1 + VIOLATION line / exit 2 harness error. Known findings: known_findings.json; saved failing inputs of fixed findings are replayed by every run from regressions/<id>/. VERIF_SEED seeds every shard (Hypothesis @seed, database=None).",
        "not_applicable": na,
    }
    with open(os.path.join(HERE, "MANIFEST.json"), "w") as f:
        json.dump(man, f, indent=1)
    print("claimed", sorted(claimed), "not yet", [x["property_id"] for x in na])


if __name__ == "__main__":
    main()
