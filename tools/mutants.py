#!/venv/bin/python
"""Run the hand-written mutants (mutants/*.diff, listed in mutants/INDEX.json) through the sensitivity
protocol: scratch worktree of /repo HEAD + patch, repository tests, then the quick check of every listed
property with VERIF_REPO pointing at the scratch copy. Results go to mutants/RESULTS.json.

usage: tools/mutants.py [--scale F] [--jobs N] [--only NAME[,NAME]] [--seed N]"""
import argparse
import json
import os
import shutil
import subprocess
import sys
import tempfile
from concurrent.futures import ThreadPoolExecutor

VERIF = os.path.dirname(os.path.dirname(os.path.abspath(__file__)))


def sh(cmd, **kw):
    return subprocess.run(cmd, shell=True, text=True, capture_output=True, **kw)


def one(m, scale, seed):
    patch = os.path.join(VERIF, "mutants", m["name"] + ".diff")
    wt = tempfile.mkdtemp(prefix="pyhms_mut_", dir="/tmp")
    out = tempfile.mkdtemp(prefix="pyhms_mut_out_", dir="/tmp")
    os.rmdir(wt)
    rec = {"name": m["name"], "props": m["props"], "checks": {}}
    try:
        r = sh(f"git -C /repo worktree add --detach {wt} HEAD")
        if r.returncode:
            rec["error"] = "worktree: " + r.stderr[-200:]
            return rec
        r = sh(f"git -C {wt} apply {patch}")
        if r.returncode:
            rec["error"] = "patch does not apply: " + r.stderr[-200:]
            return rec
        rt = sh(f"cd {wt} && /venv/bin/python -m pytest -q -p no:cacheprovider --timeout=900 test 2>&1 | tail -1")
        rec["repo_tests"] = rt.stdout.strip()
        rec["survives_repo_tests"] = " passed" in rt.stdout and "failed" not in rt.stdout and "error" not in rt.stdout
        for p in m["props"]:
            env = dict(os.environ, VERIF_REPO=wt, VERIF_OUT_DIR=out, VERIF_SEED=str(seed))
            r = sh(f"cd {VERIF} && ./check {p} --scale {scale}", env=env)
            sigs = []
            for ln in r.stdout.splitlines():
                if "signature=" in ln:
                    sigs.append(ln.strip().split("signature=")[1].split(":")[0])
            rec["checks"][p] = {"verdict": {0: "missed", 1: "caught", 2: "harness-error"}.get(r.returncode, str(r.returncode)), "signatures": sigs[:4]}
            if r.returncode == 2:
                rec["checks"][p]["stderr"] = r.stderr[-600:]
    finally:
        sh(f"git -C /repo worktree remove --force {wt}")
        shutil.rmtree(wt, ignore_errors=True)
        shutil.rmtree(out, ignore_errors=True)
    print(m["name"], "tests:", "pass" if rec.get("survives_repo_tests") else "FAIL", {p: c["verdict"] for p, c in rec["checks"].items()}, flush=True)
    return rec


def main():
    ap = argparse.ArgumentParser()
    ap.add_argument("--scale", default="0.5")
    ap.add_argument("--jobs", type=int, default=3)
    ap.add_argument("--only", default=None)
    ap.add_argument("--seed", default="1")
    ns = ap.parse_args()
    index = json.load(open(os.path.join(VERIF, "mutants", "INDEX.json")))
    if ns.only:
        names = set(ns.only.split(","))
        index = [m for m in index if m["name"] in names]
    with ThreadPoolExecutor(ns.jobs) as ex:
        res = list(ex.map(lambda m: one(m, ns.scale, ns.seed), index))
    sh("git -C /repo worktree prune")
    path = os.path.join(VERIF, "mutants", "RESULTS.json")
    old = {}
    if os.path.exists(path):
        old = {r["name"]: r for r in json.load(open(path))}
    for r in res:
        old[r["name"]] = r
    json.dump(sorted(old.values(), key=lambda r: r["name"]), open(path, "w"), indent=1)
    missed = [r["name"] for r in res if not any(c["verdict"] == "caught" for c in r["checks"].values())]
    print("mutants:", len(res), "missed by every listed check:", missed)
    return 0


if __name__ == "__main__":
    sys.exit(main())
