#!/venv/bin/python
"""Sensitivity protocol: apply a patch to a scratch worktree of /repo, check that the repository's own
tests still pass (optional), run the quick check of the given properties against the scratch copy
(VERIF_REPO) and report whether they caught it. The scratch copy is removed afterwards.

usage: tools/sensitivity.py PATCH PROP[,PROP...] [--tests] [--scale F] [--seed N] [--keep]
"""
import argparse
import os
import shutil
import subprocess
import sys
import tempfile

VERIF = os.path.dirname(os.path.dirname(os.path.abspath(__file__)))


def sh(cmd, **kw):
    return subprocess.run(cmd, shell=True, text=True, capture_output=True, **kw)


def main():
    ap = argparse.ArgumentParser()
    ap.add_argument("patch")
    ap.add_argument("props")
    ap.add_argument("--tests", action="store_true")
    ap.add_argument("--scale", default="1.0")
    ap.add_argument("--seed", default="1")
    ap.add_argument("--keep", action="store_true")
    ap.add_argument("--reverse", action="store_true", help="apply the patch in reverse (for fix commits)")
    ns = ap.parse_args()
    patch = os.path.abspath(ns.patch)
    wt = tempfile.mkdtemp(prefix="pyhms_sens_", dir="/tmp")
    out = tempfile.mkdtemp(prefix="pyhms_sens_out_", dir="/tmp")
    os.rmdir(wt)
    rc = 0
    try:
        r = sh(f"git -C /repo worktree add --detach {wt} HEAD")
        if r.returncode:
            print("cannot create worktree:", r.stderr)
            return 2
        r = sh(f"git -C {wt} apply {'-R ' if ns.reverse else ''}{patch}")
        if r.returncode:
            print("PATCH DOES NOT APPLY:", r.stderr)
            return 2
        if ns.tests:
            r = sh(f"cd {wt} && /venv/bin/python -m pytest -q -p no:cacheprovider --timeout=900 -x 2>&1 | tail -3")
            print("repo tests:", r.stdout.strip().splitlines()[-1] if r.stdout.strip() else r.stderr)
        for prop in ns.props.split(","):
            env = dict(os.environ, VERIF_REPO=wt, VERIF_OUT_DIR=out, VERIF_SEED=ns.seed)
            r = sh(f"cd {VERIF} && ./check {prop} --scale {ns.scale}", env=env)
            lines = [ln for ln in r.stdout.splitlines() if "signature=" in ln or "VIOLATION" in ln or "tier=" in ln or "KNOWN" in ln]
            verdict = {0: "MISSED", 1: "CAUGHT", 2: "HARNESS-ERROR"}.get(r.returncode, str(r.returncode))
            print(f"[{verdict}] {os.path.basename(patch)} vs {prop}")
            for ln in lines[:6]:
                print("    " + ln[:300])
            if r.returncode == 2:
                print(r.stderr[-1500:])
            if r.returncode != 1:
                rc = 1
    finally:
        if not ns.keep:
            sh(f"git -C /repo worktree remove --force {wt}")
            shutil.rmtree(wt, ignore_errors=True)
            sh("git -C /repo worktree prune")
        shutil.rmtree(out, ignore_errors=True)
    return rc


if __name__ == "__main__":
    sys.exit(main())
