#!/venv/bin/python
"""False-alarm protocol: a PROPERTY-PRESERVING change (patch written by a sub-agent that saw only the
property text) is applied to a scratch worktree of /repo HEAD; the repository tests are run, then the quick
check of every property against the scratch copy (VERIF_REPO). Every check is expected to stay quiet; an
alarm is either a false alarm of the machinery (to be corrected) or a change that is not property-preserving
after all (to be argued in meta.json by hand). The patch, the sub-agent's note and the result are kept under
/verif/benign/<name>/.

usage: tools/eval_benign.py PATCH NOTE NAME PROP [--scale F] [--own-scale F] [--seed N] [--only C01,C02]"""
import argparse
import json
import os
import shutil
import subprocess
import sys
import tempfile

VERIF = os.path.dirname(os.path.dirname(os.path.abspath(__file__)))
PROPS = [f"C{i:02d}" for i in range(1, 21)]


def sh(cmd, **kw):
    return subprocess.run(cmd, shell=True, text=True, capture_output=True, **kw)


def main():
    ap = argparse.ArgumentParser()
    ap.add_argument("patch")
    ap.add_argument("note")
    ap.add_argument("name")
    ap.add_argument("prop")
    ap.add_argument("--scale", default="0.3")
    ap.add_argument("--own-scale", default="1.0")
    ap.add_argument("--seed", default="1")
    ap.add_argument("--only", default=None)
    ns = ap.parse_args()
    dst = os.path.join(VERIF, "benign", ns.name)
    os.makedirs(dst, exist_ok=True)
    if os.path.abspath(ns.patch) != os.path.join(dst, "patch.diff"):
        shutil.copy(ns.patch, os.path.join(dst, "patch.diff"))
    if os.path.exists(ns.note) and os.path.abspath(ns.note) != os.path.join(dst, "note.md"):
        shutil.copy(ns.note, os.path.join(dst, "note.md"))
    patch = os.path.join(dst, "patch.diff")
    wt = tempfile.mkdtemp(prefix="pyhms_ben_", dir="/tmp")
    out = tempfile.mkdtemp(prefix="pyhms_ben_out_", dir="/tmp")
    os.rmdir(wt)
    head = sh("git -C /repo rev-parse --short HEAD").stdout.strip()
    meta = {"name": ns.name, "written_for": ns.prop, "repo_head": head, "seed": int(ns.seed), "checks": {}}
    mpath = os.path.join(dst, "meta.json")
    if ns.only and os.path.exists(mpath):
        meta = json.load(open(mpath))
        meta["repo_head"] = head
    try:
        r = sh(f"git -C /repo worktree add --detach {wt} HEAD")
        if r.returncode:
            print("cannot create worktree", r.stderr)
            return 2
        r = sh(f"git -C {wt} apply {patch}")
        if r.returncode:
            meta["error"] = "patch does not apply: " + r.stderr[-300:]
            print(ns.name, meta["error"])
            json.dump(meta, open(mpath, "w"), indent=1)
            return 2
        rt = sh(f"cd {wt} && /venv/bin/python -m pytest -q -p no:cacheprovider --timeout=900 test 2>&1 | tail -1")
        meta["repo_tests"] = rt.stdout.strip()
        props = ns.only.split(",") if ns.only else PROPS
        for p in props:
            scale = ns.own_scale if p == ns.prop else ns.scale
            env = dict(os.environ, VERIF_REPO=wt, VERIF_OUT_DIR=out, VERIF_SEED=str(ns.seed))
            r = sh(f"cd {VERIF} && ./check {p} --scale {scale}", env=env)
            sigs = [ln.strip()[:400] for ln in r.stdout.splitlines() if "signature=" in ln and not ln.startswith("KNOWN-FINDING")]
            verdict = {0: "quiet", 1: "ALARM", 2: "harness-error"}.get(r.returncode, str(r.returncode))
            meta["checks"][p] = {"verdict": verdict, "scale": float(scale)}
            if sigs:
                meta["checks"][p]["signatures"] = sigs[:4]
            if r.returncode == 2:
                meta["checks"][p]["stderr"] = r.stderr[-800:]
    finally:
        sh(f"git -C /repo worktree remove --force {wt}")
        shutil.rmtree(wt, ignore_errors=True)
        shutil.rmtree(out, ignore_errors=True)
    loud = {p: c for p, c in meta["checks"].items() if c["verdict"] != "quiet"}
    meta["all_quiet"] = not loud
    json.dump(meta, open(mpath, "w"), indent=1)
    print(ns.name, "tests:", meta.get("repo_tests"), "| all quiet" if not loud else "| LOUD: " + json.dumps(loud)[:900], flush=True)
    return 0


if __name__ == "__main__":
    sys.exit(main())
