#!/venv/bin/python
"""Confirm a seeded breakage produced by a sub-agent and run the checks against it.

usage: tools/eval_seed.py SRC_DIR NAME [--props C03,C05] [--scale F] [--all]

SRC_DIR holds patch.diff, demo.py, meta.json. A fresh scratch worktree of /repo HEAD is created,
 1. demo.py must exit 0 without the patch,
 2. the patch must apply, the repository's own tests must still pass,
 3. demo.py must exit non-zero with the patch,
 4. the quick checks of the listed properties (default: the property named in meta.json) are run
    against the patched copy (VERIF_REPO) - exit 1 = caught.
The result is stored in /verif/seeded/NAME/ (patch.diff, demo.py, meta.json with what was run)."""
import argparse
import json
import os
import shutil
import subprocess
import sys
import tempfile

VERIF = os.path.dirname(os.path.dirname(os.path.abspath(__file__)))


def sh(cmd, **kw):
    return subprocess.run(cmd, shell=True, text=True, capture_output=True, **kw)


def main():
    ap = argparse.ArgumentParser()
    ap.add_argument("src")
    ap.add_argument("name")
    ap.add_argument("--props", default=None)
    ap.add_argument("--scale", default="1.0")
    ap.add_argument("--seed", default="1")
    ap.add_argument("--no-store", action="store_true")
    ns = ap.parse_args()
    src = os.path.abspath(ns.src)
    meta = json.load(open(os.path.join(src, "meta.json")))
    prop = meta.get("property")
    props = ns.props.split(",") if ns.props else [prop]
    wt = tempfile.mkdtemp(prefix="pyhms_seed_", dir="/tmp")
    out = tempfile.mkdtemp(prefix="pyhms_seed_out_", dir="/tmp")
    os.rmdir(wt)
    record = {"property": prop, "summary": meta.get("summary"), "needs": meta.get("needs"), "files": meta.get("files"), "ran": {}}
    ok = True
    try:
        r = sh(f"git -C /repo worktree add --detach {wt} HEAD")
        assert r.returncode == 0, r.stderr
        record["repo_head"] = sh("git -C /repo rev-parse --short HEAD").stdout.strip()
        env = dict(os.environ, PYTHONPATH=wt)
        # the demo is copied into the scratch worktree: the script's own directory comes first on sys.path
        shutil.copy(os.path.join(src, "demo.py"), os.path.join(wt, "seed_demo.py"))
        r0 = sh(f"cd {wt} && timeout 300 /venv/bin/python -W ignore seed_demo.py", env=env)
        record["ran"]["demo_without_patch_exit"] = r0.returncode
        r = sh(f"git -C {wt} apply {src}/patch.diff")
        if r.returncode:
            print("PATCH DOES NOT APPLY:", r.stderr)
            return 2
        rt = sh(f"cd {wt} && /venv/bin/python -m pytest -q -p no:cacheprovider --timeout=900 test 2>&1 | tail -1")
        record["ran"]["repo_tests_with_patch"] = rt.stdout.strip()
        r1 = sh(f"cd {wt} && timeout 300 /venv/bin/python -W ignore seed_demo.py", env=env)
        record["ran"]["demo_with_patch_exit"] = r1.returncode
        record["ran"]["demo_with_patch_output"] = (r1.stdout + r1.stderr)[-600:]
        confirmed = r0.returncode == 0 and r1.returncode != 0 and " passed" in rt.stdout and "failed" not in rt.stdout
        record["confirmed"] = confirmed
        print(f"demo without patch: exit {r0.returncode}; tests with patch: {rt.stdout.strip()}; demo with patch: exit {r1.returncode} -> confirmed={confirmed}")
        caught_by = []
        for p in props:
            e = dict(os.environ, VERIF_REPO=wt, VERIF_OUT_DIR=out, VERIF_SEED=ns.seed)
            r = sh(f"cd {VERIF} && ./check {p} --scale {ns.scale}", env=e)
            sigs = [ln.strip()[:260] for ln in r.stdout.splitlines() if "signature=" in ln]
            verdict = {0: "missed", 1: "caught", 2: "harness-error"}.get(r.returncode, str(r.returncode))
            record["ran"][f"check_{p}"] = {"cmd": f"VERIF_REPO=<patched copy> ./check {p} --scale {ns.scale} (VERIF_SEED={ns.seed})", "verdict": verdict, "signatures": sigs[:4]}
            print(f"[{verdict.upper()}] {ns.name} vs {p}")
            for s in sigs[:3]:
                print("    " + s)
            if r.returncode == 2:
                print(r.stderr[-1200:])
            if r.returncode == 1:
                caught_by.append(p)
        record["caught_by"] = caught_by
        if not caught_by:
            ok = False
    finally:
        sh(f"git -C /repo worktree remove --force {wt}")
        shutil.rmtree(wt, ignore_errors=True)
        sh("git -C /repo worktree prune")
        shutil.rmtree(out, ignore_errors=True)
    if not ns.no_store:
        dst = os.path.join(VERIF, "seeded", ns.name)
        os.makedirs(dst, exist_ok=True)
        if os.path.abspath(src) != os.path.abspath(dst):
            shutil.copy(os.path.join(src, "patch.diff"), dst)
            shutil.copy(os.path.join(src, "demo.py"), dst)
        prev = {}
        if os.path.exists(os.path.join(dst, "meta.json")):
            prev = json.load(open(os.path.join(dst, "meta.json")))
            prev.get("ran", {}).update(record["ran"])
            record["ran"] = prev.get("ran", record["ran"])
            record["caught_by"] = sorted(set(prev.get("caught_by", [])) | set(record.get("caught_by", [])))
        json.dump(record, open(os.path.join(dst, "meta.json"), "w"), indent=1)
    return 0 if ok else 1


if __name__ == "__main__":
    sys.exit(main())
